"""C06 -- polynomial algebra exact and schedule independent.

Specs: spec/lib/PolyIndex.tla (+MCPolyIndex), spec/lib/IPoly.tla, spec/lib/GaussInt.tla,
       spec/kernels/PolyOps.tla (+MCPolyOps), spec/algo/PolyPar.tla (+MCPolyPar).

  A. index layout.  TLC checks the laws of PolyIndex (Enum complete, Rank = position in Enum,
     Unpack . Pack = id, 6-bit fields fit) and prints the table rows; hiten's psi / clmo /
     encode dictionaries / _decode_multiindex / _encode_multiindex / _pack_multiindex /
     _fill_exponents are compared with them as raw integers.  The vectorised transcription
     (polyutil.rank_array) is compared with TLC on the exhaustive range and on TLC's random
     walks up to degree 30 and then used for all 1 947 792 entries up to degree 30.
  B. operations.  TLC generates instances (exhaustive monomial pairs, seeded random walks,
     dense multinomials), checks the algebraic laws of the specification on each, and prints
     the required result of every library operation; each is replayed into the real numba
     kernels and compared exactly (Gaussian-integer coefficients, == on binary64).
  C. schedule independence.  TLC checks PrivateRows / NoLostUpdate / ResultIsSum of PolyPar
     under every interleaving (and finds lost updates in the shared-row variant), emits every
     (iteration -> thread, completion order) schedule; each is driven through
     _poly_mul.py_func / _poly_diff.py_func with prange / get_thread_id / get_num_threads
     scripted and a write monitor on the scratch array; compiled runs under
     numba.set_num_threads(1..16) x repeats on dense instances must be bit-identical to the
     exact result.
"""
from __future__ import annotations

import json
import os
import random
import sys
import threading
import time
from types import SimpleNamespace

import numpy as np

import polyutil as pu
from common import SPEC, Check, MachineryError, tlc

# The box is shared: OpenMP worker threads that spin while idle make every parallel-kernel launch cost
# milliseconds (or stall) under oversubscription.  Must be set before the OpenMP runtime is loaded.
os.environ.setdefault("OMP_WAIT_POLICY", "PASSIVE")
os.environ.setdefault("GOMP_SPINCOUNT", "0")
os.environ.setdefault("KMP_BLOCKTIME", "0")

CFG = SPEC / "cfg"
IDX = SPEC / "lib" / "MCPolyIndex.tla"
OPS = SPEC / "kernels" / "MCPolyOps.tla"
PAR = SPEC / "algo" / "MCPolyPar.tla"


# --------------------------------------------------------------------------
# the library under test (always the live working tree)
# --------------------------------------------------------------------------

_L = None


def lib():
    global _L
    if _L is None:
        import numba
        import hiten.algorithms.polynomial.algebra as alg
        import hiten.algorithms.polynomial.base as base
        import hiten.algorithms.polynomial.coordinates as coords
        import hiten.algorithms.polynomial.operations as ops
        _L = SimpleNamespace(numba=numba, alg=alg, base=base, ops=ops, coords=coords,
                             psi=base._PSI_GLOBAL, clmo=base._CLMO_GLOBAL, enc=base._ENCODE_DICT_GLOBAL)
    return _L


def _dt(code):
    return np.complex128 if code == "c" else np.float64


# --------------------------------------------------------------------------
# B. one case = one call of one library function on one TLC instance
# --------------------------------------------------------------------------

def _poly_out(arr, d):
    return pu.to_tlc(pu.from_block(np.asarray(arr), d))


def _list_out(lst):
    return pu.to_tlc(pu.from_list(lst))


def _cplx(g):
    return complex(g[0], g[1])


def _mat(m, dtype=np.complex128):
    a = np.array([[complex(e[0], e[1]) for e in row] for row in m], dtype=np.complex128)
    return a if dtype is np.complex128 else a.real.astype(np.float64)


def _vec(v):
    return np.array([complex(e[0], e[1]) for e in v], dtype=np.complex128)


def run_case(c: dict):
    """Execute one case against the real code.  Returns the observation in the same JSON shape as
    c['expect'] (polynomials as sorted [[k, re, im], ...]; values as [re, im])."""
    L = lib()
    A, O = L.alg, L.ops
    psi, clmo, enc = L.psi, L.clmo, L.enc
    fn = c["fn"]
    dt = _dt(c.get("dtype", "c"))
    p = pu.from_tlc(c.get("p"))
    q = pu.from_tlc(c.get("q"))
    if fn == "_poly_add":
        d = c["deg"]
        out = np.empty(pu.psi_count(6, d), dtype=dt)
        A._poly_add(pu.to_block(p, d, dt), pu.to_block(q, d, dt), out)
        return _poly_out(out, d)
    if fn == "_poly_scale":
        d = c["deg"]
        out = np.empty(pu.psi_count(6, d), dtype=np.complex128)
        A._poly_scale(pu.to_block(p, d, dt), _cplx(c["alpha"]), out)
        return _poly_out(out, d)
    if fn == "_poly_mul":
        if "threads" in c:
            L.numba.set_num_threads(int(c["threads"]))
        try:
            out = A._poly_mul(pu.to_block(p, c["dp"], dt), c["dp"], pu.to_block(q, c["dq"], dt), c["dq"], psi, clmo, enc)
        finally:
            if "threads" in c:
                L.numba.set_num_threads(L.numba.config.NUMBA_NUM_THREADS)
        return _poly_out(out, c["dp"] + c["dq"])
    if fn == "_poly_diff":
        if "threads" in c:
            L.numba.set_num_threads(int(c["threads"]))
        try:
            out = A._poly_diff(pu.to_block(p, c["deg"], dt), c["v"], c["deg"], psi, clmo, enc)
        finally:
            if "threads" in c:
                L.numba.set_num_threads(L.numba.config.NUMBA_NUM_THREADS)
        return _poly_out(out, max(c["deg"] - 1, 0))
    if fn == "_poly_integrate":
        out = A._poly_integrate(pu.to_block(p, c["deg"], dt), c["v"], c["deg"], psi, clmo, enc)
        return _poly_out(out, c["deg"] + 1)
    if fn == "_poly_poisson":
        if "threads" in c:
            L.numba.set_num_threads(int(c["threads"]))
        try:
            out = A._poly_poisson(pu.to_block(p, c["dp"], dt), c["dp"], pu.to_block(q, c["dq"], dt), c["dq"], psi, clmo, enc)
        finally:
            if "threads" in c:
                L.numba.set_num_threads(L.numba.config.NUMBA_NUM_THREADS)
        dr = c["dp"] + c["dq"] - 2
        if c["dp"] == 0 or c["dq"] == 0:
            dr = 0
        return _poly_out(out, dr)
    if fn == "_poly_evaluate":
        v = A._poly_evaluate(pu.to_block(p, c["deg"], dt), c["deg"], _vec(c["x"]), clmo)
        return list(pu.exact_gauss(v))
    # ---- list level (complex128 blocks, degrees 0..maxdeg)
    md = c.get("maxdeg", 0)
    if fn == "_polynomial_add_inplace":
        P = pu.to_list(p, md)
        O._polynomial_add_inplace(P, pu.to_list(q, md), c["scale"] if isinstance(c["scale"], float) else _cplx(c["scale"]), md)
        return _list_out(P)
    if fn == "_polynomial_multiply":
        if "threads" in c:
            L.numba.set_num_threads(int(c["threads"]))
        try:
            R = O._polynomial_multiply(pu.to_list(p, c["lp"]), pu.to_list(q, c["lq"]), md, psi, clmo, enc)
        finally:
            if "threads" in c:
                L.numba.set_num_threads(L.numba.config.NUMBA_NUM_THREADS)
        return _list_out(R)
    if fn == "_polynomial_power":
        R = O._polynomial_power(pu.to_list(p, c["lp"]), c["e"], md, psi, clmo, enc)
        return _list_out(R)
    if fn == "_polynomial_poisson_bracket":
        R = O._polynomial_poisson_bracket(pu.to_list(p, c["lp"]), pu.to_list(q, c["lq"]), md, psi, clmo, enc)
        return _list_out(R)
    if fn == "_polynomial_differentiate":
        R, dmax = O._polynomial_differentiate(pu.to_list(p, md), c["v"], md, psi, clmo, psi, clmo, enc)
        if dmax != max(md - 1, 0) or len(R) != dmax + 1:
            return {"bad_degree": [int(dmax), len(R)]}
        return _list_out(R)
    if fn == "_polynomial_jacobian":
        J = O._polynomial_jacobian(pu.to_list(p, md), md, psi, clmo, enc)
        return [_list_out(J[i]) for i in range(len(J))]
    if fn == "_polynomial_integrate":
        R, imax = O._polynomial_integrate(pu.to_list(p, md), c["v"], md, psi, clmo, psi, clmo, enc)
        if imax != md + 1 or len(R) != imax + 1:
            return {"bad_degree": [int(imax), len(R)]}
        return _list_out(R)
    if fn == "_polynomial_evaluate":
        v = O._polynomial_evaluate(pu.to_list(p, md), _vec(c["x"]), clmo)
        return list(pu.exact_gauss(v))
    if fn == "_polynomial_degree":
        return int(O._polynomial_degree(pu.to_list(p, md)))
    if fn == "_polynomial_total_degree":
        return int(O._polynomial_total_degree(pu.to_list(p, md), psi))
    if fn == "_polynomial_variable":
        return _list_out(O._polynomial_variable(c["v"], md, psi, clmo, enc))
    if fn == "_substitute_linear":
        C = _mat(c["C"], np.float64 if c.get("dtype") == "f" else np.complex128)
        return _list_out(O._substitute_linear(pu.to_list(p, md), C, md, psi, clmo, enc))
    if fn == "_substitute_affine":
        R = O._substitute_affine(pu.to_list(p, md), _mat(c["C"]), _vec(c["s"]), md, psi, clmo, enc)
        return _list_out(R)
    if fn == "_substitute_coordinates":
        out = L.coords._substitute_coordinates(_vec(c["x"]), _mat(c["C"]))
        return [list(pu.exact_gauss(z)) for z in out]
    raise MachineryError(f"unknown case fn {fn}")


def _is_poly(x):
    return isinstance(x, list) and all(isinstance(t, list) and len(t) == 3 and isinstance(t[0], list)
                                       and isinstance(t[1], int) for t in x)


def _norm(x):
    """Order-insensitive normal form of an expected/observed JSON value (polynomial term lists are sorted)."""
    if isinstance(x, list):
        if _is_poly(x):
            return sorted([[list(t[0]), t[1], t[2]] for t in x if (t[1], t[2]) != (0, 0)])
        return [_norm(e) for e in x]
    return x


def check_case(ck: Check, c: dict, bad: list, nontrivial=True):
    """Run a case; append (key, desc, case) to `bad` on disagreement with c['expect']."""
    try:
        obs = run_case(c)
        err = None
    except MachineryError:
        raise
    except Exception as ex:  # the library raised, or produced a non-integer / wrong-shape result
        obs, err = None, f"{type(ex).__name__}: {str(ex)[:200]}"
    ck.count((c["fn"], c.get("dtype"), json.dumps(c.get("p")), json.dumps(c.get("q")), c.get("v"), c.get("e"),
              c.get("maxdeg"), c.get("threads"), c.get("tag")), nontrivial)
    if err is not None:
        bad.append((f"{c['fn']}|raises-or-inexact", f"{c['fn']} on an exact integer instance: {err}", dict(c, observed=err)))
        return False
    if _norm(obs) != _norm(c["expect"]):
        bad.append((f"{c['fn']}|result-differs-from-definition",
                    f"{c['fn']} returned {str(obs)[:300]} ; the mathematically defined result is {str(c['expect'])[:300]}",
                    dict(c, observed=obs)))
        return False
    return True


def cases_of(inst: dict):
    """All library calls decided by one TLC instance record (family mono / walk)."""
    p, q = pu.from_tlc(inst["p"]), pu.from_tlc(inst["q"])
    dp, dq = pu.degree(p), pu.degree(q)
    out = []
    real = pu.is_real(p) and pu.is_real(q)
    dts = ("c", "f") if real else ("c",)
    P, Q = inst["p"], inst["q"]
    if pu.is_hom(p) and pu.is_hom(q):
        hp, hq = max(dp, 0) if p else 2, max(dq, 0) if q else 2      # zero polynomial: an all-zero block of degree 2
        for dt in dts:
            if hp == hq:
                out.append(dict(fn="_poly_add", dtype=dt, p=P, q=Q, deg=hp, expect=inst["add"]))
            out.append(dict(fn="_poly_mul", dtype=dt, p=P, q=Q, dp=hp, dq=hq, expect=inst["mul"]))
            out.append(dict(fn="_poly_poisson", dtype=dt, p=P, q=Q, dp=hp, dq=hq, expect=inst["poisson"]))
            out.append(dict(fn="_poly_scale", dtype=dt, p=P, deg=hp, alpha=inst["scalec"], expect=inst["scale"]))
            for v in range(6):
                out.append(dict(fn="_poly_diff", dtype=dt, p=P, deg=hp, v=v, expect=inst["diff"][v]))
                out.append(dict(fn="_poly_integrate", dtype=dt, p=inst["integin"], deg=hp, v=v, expect=inst["integ"][v]))
            for i, x in enumerate(inst["points"]):
                out.append(dict(fn="_poly_evaluate", dtype=dt, p=P, deg=hp, x=x, tag=i, expect=inst["evalp"][i]))
    # list level
    lp, lq = max(dp, 0), max(dq, 0)
    md = max(lp, lq)
    out.append(dict(fn="_polynomial_add_inplace", p=P, q=Q, maxdeg=md, scale=1.0, expect=inst["add"]))
    out.append(dict(fn="_polynomial_add_inplace", p=P, q=Q, maxdeg=md, scale=-1.0, tag="sub", expect=inst["sub"]))
    out.append(dict(fn="_polynomial_add_inplace", p=P, q=Q, maxdeg=md, scale=inst["scalec"], tag="axpy", expect=inst["axpy"]))
    out.append(dict(fn="_polynomial_multiply", p=P, q=Q, lp=lp, lq=lq, maxdeg=lp + lq, expect=inst["mul"]))
    out.append(dict(fn="_polynomial_multiply", p=P, q=Q, lp=md, lq=md, maxdeg=inst["trdeg"] if inst["trdeg"] >= 0 else 0,
                    tag="trunc", expect=inst["multr"]))
    out.append(dict(fn="_polynomial_poisson_bracket", p=P, q=Q, lp=lp, lq=lq, maxdeg=max(lp + lq - 2, 0), expect=inst["poisson"]))
    for e, ex in enumerate(inst["pow"]):
        if ex != ["skip"]:
            out.append(dict(fn="_polynomial_power", p=P, lp=lp, e=e, maxdeg=max(e * lp, 0), expect=ex))
    if inst.get("powtr") not in (None, ["skip"]):
        out.append(dict(fn="_polynomial_power", p=P, lp=lp, e=3, maxdeg=inst["powtrdeg"], tag="trunc", expect=inst["powtr"]))
    for v in range(6):
        out.append(dict(fn="_polynomial_differentiate", p=P, maxdeg=lp, v=v, expect=inst["diff"][v]))
        out.append(dict(fn="_polynomial_integrate", p=inst["integin"], maxdeg=lp, v=v, expect=inst["integ"][v]))
    out.append(dict(fn="_polynomial_jacobian", p=P, maxdeg=lp, expect=inst["diff"]))
    for i, x in enumerate(inst["points"]):
        out.append(dict(fn="_polynomial_evaluate", p=P, maxdeg=lp, x=x, tag=i, expect=inst["evalp"][i]))
        out.append(dict(fn="_polynomial_evaluate", p=Q, maxdeg=lq, x=x, tag=("q", i), expect=inst["evalq"][i]))
    out.append(dict(fn="_polynomial_degree", p=P, maxdeg=lp + 1, expect=dp))
    out.append(dict(fn="_polynomial_total_degree", p=P, maxdeg=lp + 1, expect=dp))
    for i, C in enumerate(inst["mats"]):
        if inst["subst"][i] != ["skip"]:
            out.append(dict(fn="_substitute_linear", p=P, maxdeg=lp, C=C, tag=i, expect=inst["subst"][i]))
            if all(e[1] == 0 for row in C for e in row):
                out.append(dict(fn="_substitute_linear", dtype="f", p=P, maxdeg=lp, C=C, tag=(i, "f"), expect=inst["subst"][i]))
            out.append(dict(fn="_substitute_affine", p=P, maxdeg=lp, C=C, s=inst["shifts"][i], tag=i, expect=inst["affine"][i]))
    return out


def fixed_cases(inst: dict):
    """Cases that do not depend on (p, q): coordinate substitution and variable polynomials."""
    out = []
    for i, C in enumerate(inst["mats"]):
        x = inst["points"][(i + 1) % 2]
        out.append(dict(fn="_substitute_coordinates", C=C, x=x, tag=i, expect=inst["matvec"][i]))
    for v in range(6):
        k = [0] * 6
        k[v] = 1
        out.append(dict(fn="_polynomial_variable", v=v, maxdeg=3, expect=[[k, 1, 0]]))
    return out


# --------------------------------------------------------------------------
# A. index tables
# --------------------------------------------------------------------------

_ENUM_MEMO: dict = {}


def _enum_array(d: int, n: int = 6) -> np.ndarray:
    """All exponent n-tuples of degree d in PolyIndex.Enum order, vectorised (pure numpy, memoised in-process)."""
    if (n, d) in _ENUM_MEMO:
        return _ENUM_MEMO[(n, d)]
    if n == 1:
        out = np.array([[d]], dtype=np.int64)
    else:
        parts = []
        for k0 in range(d, -1, -1):
            tail = _enum_array(d - k0, n - 1)
            parts.append(np.hstack([np.full((tail.shape[0], 1), k0, dtype=np.int64), tail]))
        out = np.vstack(parts)
    if n < 6:
        _ENUM_MEMO[(n, d)] = out
    return out


def check_index(ck: Check, bad: list):
    L = lib()
    base = L.base
    psi, clmo, enc = L.psi, L.clmo, L.enc
    nb = L.numba

    r = tlc(IDX, CFG / f"PolyIndex.{ck.tier}.cfg", timeout=900)
    ck.model("PolyIndex." + ck.tier, r)
    rows = [x for x in r.printed() if x.get("kind") == "table"]
    if not rows:
        raise MachineryError("PolyIndex model printed no table rows")
    rw = tlc(IDX, CFG / "PolyIndex.walk.cfg", simulate="num=%d" % (40 if ck.quick else 400), seed=ck.seed, depth=31,
             workers=2, timeout=600)
    if rw.error or not rw.ok:
        raise MachineryError(f"PolyIndex walk failed: {rw.error}\n{rw.out[-2000:]}")
    walk = {tuple(x["k"]): (x["pack"], x["rank"]) for x in rw.printed() if x.get("kind") == "walk"}
    ck.part("index", table_degrees=len(rows), walk_samples=len(walk))

    # (1) the harness' own transcription against TLC (machinery self-check, never a violation)
    for row in rows:
        d = row["d"]
        E = [tuple(t) for t in row["tuples"]]
        if list(pu.enum(d)) != E or [pu.rank(k) for k in E] != list(range(len(E))) \
                or [pu.pack(k) for k in E] != row["packed"] \
                or not np.array_equal(_enum_array(d), np.array(E, dtype=np.int64).reshape(-1, 6)) \
                or not np.array_equal(pu.rank_array(np.array(E, dtype=np.int64).reshape(-1, 6)), np.arange(len(E))):
            raise MachineryError(f"polyutil transcription of PolyIndex disagrees with TLC at degree {d}")
    ks = np.array(list(walk), dtype=np.int64)
    if not np.array_equal(pu.rank_array(ks), np.array([walk[tuple(k)][1] for k in ks.tolist()])) or \
            any(pu.pack(k) != walk[k][0] or pu.rank(k) != walk[k][1] for k in walk):
        raise MachineryError("polyutil transcription of Rank/Pack disagrees with TLC on walk samples")

    # (2) hiten's tables against TLC's rows, entry by entry
    def report(key, desc, data):
        bad.append((key, desc, data))

    for row in rows:
        d = row["d"]
        ck.count(("index-row", d), d >= 2)
        for i in range(7):
            if int(psi[i, d]) != row["psi"][i]:
                report("index-tables|psi", f"psi[{i},{d}] = {int(psi[i, d])}, number of monomials is {row['psi'][i]}",
                       {"case": "index", "d": d})
        lib_packed = [int(x) for x in np.asarray(clmo[d])]
        if lib_packed != row["packed"]:
            pos = next((j for j, (a, b) in enumerate(zip(lib_packed, row["packed"])) if a != b), -1)
            report("index-tables|clmo", f"clmo[{d}] differs from the packed enumeration (first at position {pos}, "
                   f"lengths {len(lib_packed)} vs {len(row['packed'])})", {"case": "index", "d": d})
        ed = enc[d]
        if len(ed) != len(row["packed"]) or any((np.int64(w) not in ed) or int(ed[np.int64(w)]) != j for j, w in enumerate(row["packed"])):
            report("index-tables|encode-dict", f"encode dictionary of degree {d} is not the inverse of the enumeration",
                   {"case": "index", "d": d})
        for j, k in enumerate(row["tuples"]):
            ka = np.array(k, dtype=np.int64)
            dec = tuple(int(x) for x in base._decode_multiindex(j, d, clmo))
            if dec != tuple(k):
                report("_decode_multiindex|wrong-exponents", f"_decode_multiindex({j},{d}) = {dec}, slot holds {tuple(k)}",
                       {"case": "index", "d": d, "pos": j})
                break
            e = int(base._encode_multiindex(ka, d, enc))
            if e != j:
                report("_encode_multiindex|wrong-slot", f"_encode_multiindex({tuple(k)},{d}) = {e}, slot is {j}",
                       {"case": "index", "d": d, "pos": j})
                break
            if int(base._pack_multiindex(ka)) != row["packed"][j]:
                report("_pack_multiindex|wrong-word", f"_pack_multiindex({tuple(k)}) = {int(base._pack_multiindex(ka))}, "
                       f"expected {row['packed'][j]}", {"case": "index", "d": d, "pos": j})
                break
            buf = np.zeros(6, dtype=np.int64)
            base._fill_exponents(j, d, clmo, buf)
            if tuple(int(x) for x in buf) != tuple(k):
                report("_fill_exponents|wrong-exponents", f"_fill_exponents({j},{d}) = {tuple(buf)}, slot holds {tuple(k)}",
                       {"case": "index", "d": d, "pos": j})
                break
    # (3) TLC's walk samples (degrees up to 30) against the tables
    for k, (w, rk) in walk.items():
        d = sum(k)
        ck.count(("index-walk", k), d >= 2)
        if int(np.asarray(clmo[d])[rk]) != w or (np.int64(w) not in enc[d]) or int(enc[d][np.int64(w)]) != rk or \
                tuple(int(x) for x in base._decode_multiindex(rk, d, clmo)) != k or \
                int(base._encode_multiindex(np.array(k, dtype=np.int64), d, enc)) != rk:
            report("index-tables|walk-sample", f"monomial {k}: TLC slot {rk}, packed {w}; tables disagree",
                   {"case": "index-walk", "k": list(k), "pack": w, "rank": rk})

    # (4) every multi-index up to degree 30 (or 16 in the quick tier) with the validated transcription
    @nb.njit(cache=False)
    def sweep(K, packed, d, clmo_, enc_):
        nbad = 0
        ed = enc_[d]
        if len(ed) != K.shape[0] or clmo_[d].shape[0] != K.shape[0]:
            return -1
        for pos in range(K.shape[0]):
            if np.int64(clmo_[d][pos]) != packed[pos]:
                nbad += 1
                continue
            key = np.int64(packed[pos])
            if key not in ed or ed[key] != pos:
                nbad += 1
                continue
            dec = base._decode_multiindex(pos, d, clmo_)
            ok = True
            for m in range(6):
                if dec[m] != K[pos, m]:
                    ok = False
            if not ok or base._encode_multiindex(K[pos], d, enc_) != pos:
                nbad += 1
        return nbad

    top = min(len(clmo) - 1, 30)
    total = 0
    t0 = time.time()
    for d in range(top + 1):
        K = _enum_array(d)
        if not np.array_equal(pu.rank_array(K), np.arange(K.shape[0])):
            raise MachineryError(f"rank_array is not the position in the enumeration at degree {d}")
        packed = K[:, 1] | (K[:, 2] << 6) | (K[:, 3] << 12) | (K[:, 4] << 18) | (K[:, 5] << 24)
        if int(psi[6, d]) != K.shape[0]:
            report("index-tables|psi", f"psi[6,{d}] = {int(psi[6, d])}, number of monomials is {K.shape[0]}",
                   {"case": "index-sweep", "d": d})
        nbad = int(sweep(K, packed.astype(np.int64), d, clmo, enc))
        total += K.shape[0]
        ck.count(("index-sweep", d), True, n=K.shape[0])
        if nbad != 0:
            report("index-tables|sweep", f"degree {d}: {nbad} of {K.shape[0]} slots disagree with Rank/Pack "
                   f"(clmo, encode dictionary, _decode_multiindex or _encode_multiindex)", {"case": "index-sweep", "d": d})
    ck.part("index", sweep_entries=total, sweep_max_degree=top, sweep_s=round(time.time() - t0, 1))

    # (5) tables built for a smaller degree and the dictionary builder agree with the global ones
    psi8, clmo8 = base._init_index_tables(8)
    enc8 = base._create_encode_dict_from_clmo(clmo8)
    ck.count(("index-local-tables", 8), True)
    for d in range(9):
        if not np.array_equal(np.asarray(clmo8[d]), np.asarray(clmo[d])) or int(psi8[6, d]) != int(psi[6, d]) or \
                len(enc8[d]) != len(enc[d]) or any(int(enc8[d][np.int64(w)]) != j for j, w in enumerate(np.asarray(clmo8[d]))):
            report("index-tables|local-tables", f"_init_index_tables(8)/_create_encode_dict_from_clmo differ from the "
                   f"global tables at degree {d}", {"case": "index-local", "d": d})


    # (6) the dictionary builder every library caller uses (_create_encode_dict_from_clmo on locally built tables) at HIGH degree:
    # the number of slots exceeds 2^16 from degree 21 on (C(26,5) = 65780); exhaustive sweep of the local tables like (4)
    top_local = 30
    t0 = time.time()
    psiL, clmoL = base._init_index_tables(top_local)
    encL = base._create_encode_dict_from_clmo(clmoL)
    for d in range(9, top_local + 1):
        K = _enum_array(d)
        packed = K[:, 1] | (K[:, 2] << 6) | (K[:, 3] << 12) | (K[:, 4] << 18) | (K[:, 5] << 24)
        nbad = int(sweep(K, packed.astype(np.int64), d, clmoL, encL))
        ck.count(("index-sweep-local", d), True, n=K.shape[0])
        if nbad != 0 or int(psiL[6, d]) != K.shape[0]:
            report("index-tables|local-tables-sweep", f"degree {d}: {nbad} of {K.shape[0]} slots of _init_index_tables({top_local}) / "
                   f"_create_encode_dict_from_clmo disagree with Rank/Pack", {"case": "index-local-sweep", "d": d, "top": top_local})
    ck.part("index", local_sweep_max_degree=top_local, local_sweep_s=round(time.time() - t0, 1))


# --------------------------------------------------------------------------
# C. schedules through the py_func source with a write monitor
# --------------------------------------------------------------------------

class _Monitored(np.ndarray):
    """ndarray that reports every element write together with the scripted current thread."""
    _log = None
    _cur = None

    def __setitem__(self, key, value):
        if self._log is not None and isinstance(key, tuple) and len(key) == 2:
            self._log.append((int(key[0]), int(key[1]), self._cur[0]))
        super().__setitem__(key, value)


class _NPProxy:
    def __init__(self, log, cur):
        self._log, self._cur = log, cur

    def __getattr__(self, name):
        return getattr(np, name)

    def zeros(self, shape, dtype=float):
        a = np.zeros(shape, dtype=dtype)
        if isinstance(shape, tuple) and len(shape) == 2:
            m = a.view(_Monitored)
            m._log, m._cur = self._log, self._cur
            return m
        return a


_PATCH_LOCK = threading.Lock()


def run_scheduled(fn: str, c: dict, T: int, sched: list):
    """Run `_poly_mul.py_func` / `_poly_diff.py_func` with prange, get_thread_id and get_num_threads scripted:
    the j-th active iteration (non-zero coefficient of p, in index order) is TLC iteration j+1; `sched` is the
    list of [iteration, thread] in execution order; the other iterations run first on thread ids in turn.
    Returns (result polynomial JSON, foreign writes [(row, slot, thread)], number of monitored writes)."""
    L = lib()
    alg = L.alg
    dt = _dt(c.get("dtype", "c"))
    p = pu.from_tlc(c["p"])
    deg_p = c["dp"] if fn == "_poly_mul" else c["deg"]
    parr = pu.to_block(p, deg_p, dt)
    active = [int(i) for i in np.flatnonzero(parr != 0)]
    if len(active) != len(sched):
        raise MachineryError("schedule length does not match the number of active iterations")
    log, cur = [], [0]

    def s_prange(n):
        order = [(i, (j % T)) for j, i in enumerate(x for x in range(n) if x not in active)]
        order += [(active[it - 1], th - 1) for it, th in sched]
        for i, th in order:
            cur[0] = th
            yield i

    saved = (alg.prange, alg.get_thread_id, alg.get_num_threads, alg.np)
    with _PATCH_LOCK:
        try:
            alg.prange = s_prange
            alg.get_thread_id = lambda: cur[0]
            alg.get_num_threads = lambda: T
            alg.np = _NPProxy(log, cur)
            if fn == "_poly_mul":
                q = pu.from_tlc(c["q"])
                out = alg._poly_mul.py_func(parr, deg_p, pu.to_block(q, c["dq"], dt), c["dq"], L.psi, L.clmo, L.enc)
                dr = deg_p + c["dq"]
            else:
                out = alg._poly_diff.py_func(parr, c["v"], deg_p, L.psi, L.clmo, L.enc)
                dr = max(deg_p - 1, 0)
        finally:
            alg.prange, alg.get_thread_id, alg.get_num_threads, alg.np = saved
    foreign = [w for w in log if w[0] != w[2]]
    return _poly_out(np.asarray(out), dr), foreign, len(log), np.asarray(out)


def check_schedules(ck: Check, bad: list, insts: list, rnd: random.Random):
    # models
    r = tlc(PAR, CFG / f"PolyPar.{ck.tier}.cfg", coverage=ck.quick, timeout=900)
    ck.model("PolyPar." + ck.tier, r, required_actions=("Take", "Read", "Write", "Join", "Reduce"))
    rs = tlc(PAR, CFG / "PolyPar.shared.cfg", timeout=300)
    ck.model("PolyPar.shared", rs, expect_ok=False)
    if rs.invariant_violated not in ("NoLostUpdate", "ResultIsSum"):
        raise MachineryError("PolyPar with a shared scratch row does not lose updates: the invariants are vacuous\n" + rs.out[-1500:])
    rr = tlc(PAR, CFG / "PolyPar.sharedrows.cfg", timeout=300)
    ck.model("PolyPar.sharedrows", rr, expect_ok=False)
    if rr.invariant_violated != "PrivateRows":
        raise MachineryError("PolyPar with a shared scratch row satisfies PrivateRows: the invariant is vacuous")
    ck.part("PolyPar.shared", violated=rs.invariant_violated, private_rows_violated=True)
    rg = tlc(PAR, CFG / f"PolyPar.gen.{ck.tier}.cfg", timeout=900)
    ck.model("PolyPar.gen." + ck.tier, rg)
    scheds = rg.printed()
    if not scheds:
        raise MachineryError("PolyPar generation printed no schedules")
    NI, T = scheds[0]["NI"], scheds[0]["T"]

    # instances with exactly NI active iterations
    L = lib()
    mul_c, diff_c = [], []
    for inst in insts:
        p, q = pu.from_tlc(inst["p"]), pu.from_tlc(inst["q"])
        if len(p) == NI and q and pu.is_hom(p) and pu.is_hom(q):
            dt = "f" if (pu.is_real(p) and pu.is_real(q) and len(mul_c) % 2) else "c"
            mul_c.append(dict(fn="_poly_mul", dtype=dt, p=inst["p"], q=inst["q"], dp=pu.degree(p), dq=pu.degree(q),
                              expect=inst["mul"]))
        if len(p) == NI and pu.is_hom(p) and pu.degree(p) >= 1:
            for v in range(6):
                if inst["diff"][v]:
                    diff_c.append(dict(fn="_poly_diff", dtype="c", p=inst["p"], deg=pu.degree(p), v=v, expect=inst["diff"][v]))
    if len(mul_c) < 3 or len(diff_c) < 3:
        raise MachineryError(f"too few instances with {NI} active iterations (mul {len(mul_c)}, diff {len(diff_c)})")
    rnd.shuffle(mul_c)
    rnd.shuffle(diff_c)
    mul_c, diff_c = mul_c[:40], diff_c[:40]
    writes = 0
    n_runs = 0
    for si, s in enumerate(scheds):
        for fn, pool in (("_poly_mul", mul_c), ("_poly_diff", diff_c)):
            c = pool[si % len(pool)]
            try:
                obs, foreign, nw, raw = run_scheduled(fn, c, T, s["sched"])
            except MachineryError:
                raise
            except Exception as ex:
                bad.append((f"{fn}|raises-under-schedule", f"{fn} source raised under schedule {s['sched']}: {ex!r}",
                            dict(c, case="schedule", T=T, sched=s["sched"])))
                continue
            writes += nw
            n_runs += 1
            ck.count((fn, "schedule", json.dumps(s["sched"]), json.dumps(c["p"])), True)
            data = dict(c, case="schedule", T=T, sched=s["sched"])
            if foreign:
                bad.append((f"{fn}|thread-writes-foreign-scratch-row",
                            f"{fn}: thread {foreign[0][2]} wrote scratch row {foreign[0][0]} (slot {foreign[0][1]}) under schedule "
                            f"{s['sched']} with {T} threads", data))
            if _norm(obs) != _norm(c["expect"]):
                bad.append((f"{fn}|result-depends-on-schedule",
                            f"{fn}: schedule {s['sched']} with {T} threads gives {str(obs)[:200]}, defined result {str(c['expect'])[:200]}",
                            dict(data, observed=obs)))
            if si < 6:
                # pairing of the source run with the compiled artefact (B2 limitation): bit-identical
                comp = run_case(c)
                if _norm(comp) != _norm(obs):
                    ck.notes.append(f"py_func run of {fn} differs from the compiled kernel on {c['p']}")
    if writes == 0:
        raise MachineryError("write monitor saw no writes: the binding does not bind")
    ck.part("schedules", schedules=len(scheds), threads=T, iterations=NI, source_runs=n_runs, monitored_writes=writes)
    ck.cov["traces_validated_against_impl"] += n_runs

    # self-test of the monitor: a deliberately wrong script (thread id off by one) must be seen
    c = mul_c[0]
    alg = L.alg
    saved = alg.get_thread_id
    try:
        s = scheds[0]["sched"]
        obs, foreign, nw, raw = _run_with_lying_tid(c, T, s)
    finally:
        alg.get_thread_id = saved
    if not foreign:
        raise MachineryError("binding self-test: a foreign-row write was not noticed by the monitor")
    ck.part("selftest", foreign_row_write_noticed=True)


def _run_with_lying_tid(c, T, sched):
    """Binding self-test: the kernel is told thread id t+1 (mod T) while the monitor knows t."""
    L = lib()
    alg = L.alg
    dt = _dt(c.get("dtype", "c"))
    p = pu.from_tlc(c["p"])
    parr = pu.to_block(p, c["dp"], dt)
    q = pu.from_tlc(c["q"])
    log, cur = [], [0]

    def s_prange(n):
        for j, i in enumerate(range(n)):
            cur[0] = j % T
            yield i
    saved = (alg.prange, alg.get_thread_id, alg.get_num_threads, alg.np)
    with _PATCH_LOCK:
        try:
            alg.prange = s_prange
            alg.get_thread_id = lambda: (cur[0] + 1) % max(T, 2)
            alg.get_num_threads = lambda: max(T, 2)
            alg.np = _NPProxy(log, cur)
            out = alg._poly_mul.py_func(parr, c["dp"], pu.to_block(q, c["dq"], dt), c["dq"], L.psi, L.clmo, L.enc)
        finally:
            alg.prange, alg.get_thread_id, alg.get_num_threads, alg.np = saved
    foreign = [w for w in log if w[0] != w[2]]
    return None, foreign, len(log), out


def check_thread_sweep(ck: Check, bad: list, dense: list):
    """Compiled kernels under numba.set_num_threads(n), repeated, on dense instances: bit-equality with the
    exact result (integer partial sums make every summation order exact)."""
    L = lib()
    A, O = L.alg, L.ops
    psi, clmo, enc = L.psi, L.clmo, L.enc
    nmax = int(L.numba.config.NUMBA_NUM_THREADS)
    counts = [n for n in ((1, 2, 3, 5, 8, 13, 16) if ck.quick else range(1, 17)) if n <= nmax]
    reps = 5 if ck.quick else 40
    runs = 0
    try:
        for inst in dense:
            a, b = inst["a"], inst["b"]
            if a + b < 3:
                continue
            p, q, m = pu.from_tlc(inst["p"]), pu.from_tlc(inst["q"]), pu.from_tlc(inst["mul"])
            jobs = []
            for dt in ("f", "c"):
                pa, qa = pu.to_block(p, a, _dt(dt)), pu.to_block(q, b, _dt(dt))
                jobs.append((dict(fn="_poly_mul", dtype=dt, p=inst["p"], q=inst["q"], dp=a, dq=b, expect=inst["mul"]),
                             (lambda pa=pa, qa=qa: A._poly_mul(pa, a, qa, b, psi, clmo, enc)), pu.to_block(m, a + b, _dt(dt))))
            ma = pu.to_block(m, a + b, np.float64)
            for v in (0, 3, 5):
                jobs.append((dict(fn="_poly_diff", dtype="f", p=inst["mul"], deg=a + b, v=v, expect=inst["diff"][v]),
                             (lambda v=v: A._poly_diff(ma, v, a + b, psi, clmo, enc)),
                             pu.to_block(pu.from_tlc(inst["diff"][v]), a + b - 1, np.float64)))
            PL, QL = pu.to_list(p, a), pu.to_list(q, b)
            exp_blocks = [pu.to_block(m, d, np.complex128) for d in range(a + b + 1)]
            wrong1 = set()          # jobs already wrong with the first thread count: not a schedule effect
            for n in counts:
                L.numba.set_num_threads(n)
                for rep in range(reps):
                    for c, call, want in jobs:
                        got = call()
                        runs += 1
                        if got.shape != want.shape or got.dtype != want.dtype or not np.array_equal(got, want):
                            if n == counts[0] and rep == 0:
                                wrong1.add(id(c))
                            bad.append((f"{c['fn']}|" + ("result-differs-from-definition" if id(c) in wrong1
                                                        else "result-depends-on-thread-count"),
                                        f"{c['fn']} with {n} threads (run {rep}) is not bit-identical to the exact result on the dense "
                                        f"instance (x1+..+x6)^{a} (x1+..+x6)^{b}", dict(c, threads=n)))
                    R = O._polynomial_multiply(PL, QL, a + b, psi, clmo, enc)
                    runs += 1
                    if len(R) != a + b + 1 or any(not np.array_equal(np.asarray(R[d]), exp_blocks[d]) for d in range(a + b + 1)):
                        if n == counts[0] and rep == 0:
                            wrong1.add("L")
                        bad.append(("_polynomial_multiply|" + ("result-differs-from-definition" if "L" in wrong1
                                                               else "result-depends-on-thread-count"),
                                    f"_polynomial_multiply with {n} threads (run {rep}) is not bit-identical to the exact result",
                                    dict(fn="_polynomial_multiply", p=inst["p"], q=inst["q"], lp=a, lq=b, maxdeg=a + b,
                                         expect=inst["mul"], threads=n)))
                if len(bad) > 400:
                    break
    finally:
        L.numba.set_num_threads(nmax)
    ck.count(("thread-sweep", tuple(counts), reps), True, n=runs)
    ck.part("thread_sweep", thread_counts=list(counts), repeats=reps, compiled_runs=runs,
            threading_layer=str(L.numba.threading_layer()))


# --------------------------------------------------------------------------
# main
# --------------------------------------------------------------------------

def _bg(fn):
    box = {}

    def run():
        try:
            box["r"] = fn()
        except BaseException as ex:  # noqa
            box["e"] = ex
    th = threading.Thread(target=run, daemon=True)
    th.start()
    return th, box


def main(tier=None, replay=None):
    ck = Check("C06", "model_checking", tier)
    rnd = random.Random(ck.seed)
    if replay:
        data = json.load(open(replay))["data"]
        return replay_one(data, replay)

    # TLC generation runs in the background while hiten is imported and compiled
    def gen():
        out = {}
        out["mono"] = tlc(OPS, CFG / f"PolyOps.mono.{ck.tier}.cfg", timeout=1500, workers=8)
        out["walk"] = tlc(OPS, CFG / "PolyOps.walk.cfg", simulate="num=%d" % (100 if ck.quick else 1200), seed=ck.seed,
                          depth=120, workers=6, timeout=1500)
        out["walkbig"] = tlc(OPS, CFG / "PolyOps.walkbig.cfg", simulate="num=%d" % (25 if ck.quick else 400), seed=ck.seed + 1,
                             depth=160, workers=6, timeout=1500)
        out["dense"] = tlc(OPS, CFG / f"PolyOps.dense.{ck.tier}.cfg", timeout=1500, workers=4)
        return out
    th, box = _bg(gen)

    bad: list = []
    lib()
    check_index(ck, bad)

    th.join()
    if "e" in box:
        raise box["e"]
    runs = box["r"]
    ck.model("PolyOps.mono." + ck.tier, runs["mono"])
    ck.model("PolyOps.dense." + ck.tier, runs["dense"])
    for nm in ("walk", "walkbig"):
        if runs[nm].error or not runs[nm].ok:
            raise MachineryError(f"PolyOps {nm} generation failed: {runs[nm].error or runs[nm].invariant_violated}\n"
                                 + runs[nm].counterexample()[:3000])
        ck.part("PolyOps." + nm, wall_s=round(runs[nm].wall, 1))
    insts, seen = [], set()
    for nm in ("mono", "walk", "walkbig"):
        for x in runs[nm].printed():
            if x.get("shape") in ("mono", "hom", "mixed"):
                k = json.dumps([x["p"], x["q"]], sort_keys=True)
                if k not in seen:
                    seen.add(k)
                    insts.append(x)
    dense = [x for x in runs["dense"].printed() if x.get("shape") == "dense"]
    if len(insts) < 100 or not dense:
        raise MachineryError(f"too few instances generated ({len(insts)}, dense {len(dense)})")
    ck.part("instances", distinct=len(insts), dense=len(dense))

    # B. exact replay (two threads: launch overhead only; thread counts are swept in part C)
    t0 = time.time()
    ncases = 0
    lib().numba.set_num_threads(min(2, int(lib().numba.config.NUMBA_NUM_THREADS)))
    for c in fixed_cases(insts[0]):
        check_case(ck, c, bad)
        ncases += 1
    for inst in insts:
        nt = bool(inst["p"]) and bool(inst["q"])
        for c in cases_of(inst):
            check_case(ck, c, bad, nt)
            ncases += 1
        if len(bad) > 400:
            break
    for inst in dense:
        a, b = inst["a"], inst["b"]
        for c in (dict(fn="_poly_mul", dtype="c", p=inst["p"], q=inst["q"], dp=a, dq=b, expect=inst["mul"]),
                  dict(fn="_poly_poisson", dtype="c", p=_shift(inst["p"], 0), q=_shift(inst["q"], 3), dp=a + 1, dq=b + 1,
                       expect=inst["poisson"])):
            check_case(ck, c, bad)
            ncases += 1
    lib().numba.set_num_threads(int(lib().numba.config.NUMBA_NUM_THREADS))
    ck.part("replay", cases=ncases, mismatches=len(bad), wall_s=round(time.time() - t0, 1))
    for inst in insts:
        if len(inst["p"]) == 3 and len(inst["q"]) >= 2:
            ck.sample({"p": inst["p"], "q": inst["q"], "poisson": inst["poisson"]})

    # C. schedules
    check_schedules(ck, bad, insts, rnd)
    check_thread_sweep(ck, bad, dense)

    # verdicts: one violation per structural key, with the smallest failing input
    by_key: dict = {}
    for key, desc, data in bad:
        size = len(json.dumps(data, default=str))
        if key not in by_key or size < by_key[key][2]:
            by_key[key] = (desc, data, size)
    for key, (desc, data, _) in sorted(by_key.items()):
        n = sum(1 for b in bad if b[0] == key)
        ck.violation(key, f"{desc}  [{n} failing case(s) with this key]", data)

    ck.cov["rule"] = ("one evaluation = one call of one library function on one TLC-generated instance (or one index-table "
                      "entry in the sweep); distinct = distinct (function, dtype, inputs, parameters); non-trivial = both "
                      "polynomials non-zero; instances = exhaustive monomial pairs + -simulate walks seeded by VERIF_SEED "
                      "+ dense multinomials; schedules = every terminal state of PolyPar.gen")
    ck.cov["exhaustive"] = True
    ck.assumptions += [
        "coefficients are Gaussian integers, so every partial sum is exact in binary64 and == is the correct comparison; "
        "rounding-level behaviour for non-integer coefficients is not decided",
        "OpenMP scheduling of the compiled prange loops cannot be scripted: schedules are driven through the py_func source "
        "(iteration granularity) and the compiled artefact is covered by thread-count sweeps",
        "sub-iteration interleavings (Read/Write of +=) are explored in the model only; the write monitor establishes the "
        "model's premise PrivateRows on the real source",
    ]
    ck.notes.append("_poly_diff writes the dead store scratch_exp[var] from every thread (shared array, never read): "
                    "a benign write-write race, not monitored as a scratch row")
    return ck.finish()


def _shift(pseq, v):
    """p * x_v on the TLC JSON form (used for the dense Poisson instance, mirrors DenseResults in MCPolyOps)."""
    out = []
    for k, re, im in pseq:
        k = list(k)
        k[v] += 1
        out.append([k, re, im])
    return out


def replay_one(data: dict, path: str) -> int:
    lib()
    case = data.get("case")
    if case == "schedule":
        obs, foreign, nw, raw = run_scheduled(data["fn"], data, data["T"], data["sched"])
        print(json.dumps({"observed": obs, "foreign_writes": foreign[:5], "expected": data["expect"]})[:3000])
        if foreign or _norm(obs) != _norm(data["expect"]):
            print(f"VIOLATION property=C06 replay={path}")
            return 1
        return 0
    if case and case.startswith("index"):
        ck = Check("C06", "model_checking", "quick")
        bad: list = []
        check_index(ck, bad)
        for k, d, _ in bad[:5]:
            print(k, "::", d)
        if bad:
            print(f"VIOLATION property=C06 replay={path}")
            return 1
        return 0
    try:
        obs = run_case(data)
        err = None
    except Exception as ex:
        obs, err = None, repr(ex)
    print(json.dumps({"fn": data["fn"], "observed": obs, "error": err, "expected": data["expect"]}, default=str)[:4000])
    if err or _norm(obs) != _norm(data["expect"]):
        print(f"VIOLATION property=C06 replay={path}")
        return 1
    return 0


if __name__ == "__main__":
    sys.exit(main())
