"""C11 -- event detection returns the first admissible crossing, on the trajectory.

Model: spec/algo/EventLocate.tla (MCEventLocate.tla instance), two layers.
  1. TLC exhaustive: algorithm => requirement.  Step layer: all sign sequences of g at accepted
     nodes up to 8 steps x 3 directions (first admissible step, direction filter, start on the
     surface, exact zero at a step end, no crossing => end state).  Refine layer: bisection on a
     dyadic grid over every piecewise-constant sign function of the family (bracket keeps the
     crossing, result within xtol or exactly zero).  The run emits every terminal behaviour.
  2. spec -> code, step layer: every emitted sign script is played through the *source* of all
     seven event drivers (fixed RK, RK45, DOP853, their _ham twins, symplectic) run as .py_func
     with a scripted step kernel (also scripted rejected attempts for the adaptive ones); the
     recorded events (sign at each accepted node, what the real _event_crossed returned, which
     step went to the refine function, which state was returned) are validated by TLC.
  3. spec -> code, refine layer: every emitted sign function is played through the source of the
     five refine functions with the dense interpolant scripted to the identity; the bracket
     sequence recorded from the real _crossed_direction/_bisection_update/_bracket_converged is
     validated by TLC.
  4. code -> spec, real runs: the seven drivers (py_func source, compiled kernels) on exact flows
     (rotation; harmonic polynomial Hamiltonian) with affine event functions, 3 directions, start
     points on/off the surface; the exact flow gives the true crossings, ranks of the node times
     among them go into the trace; TLC checks signs-on-trajectory, first-on-trajectory and that
     ONE oracle record explains the traces of all drivers on the same problem (uniformity).
     The refine part of each real run is validated as a refine trace.  Paired compiled runs
     through Integrator.integrate must agree to 1e-6 (bit-identity is recorded);
     _cross_event_driven is run on top.
"""
from __future__ import annotations

import json
import os
import math
import random
import sys
import time

import numpy as np

from common import SPEC, Check, MachineryError, tlc, workdir
from pyfunc import Recorder, patched, py_func, same_bits

ALGO = SPEC / "algo" / "MCEventLocate.tla"
TRACE = SPEC / "trace" / "EventLocateTrace.tla"
CFG = SPEC / "cfg"

T_TOL = 0.02       # returned time "is crossing j" when within 0.02 of the exact crossing time (identification only)
G_TOL = 1e-5        # [T] residual: |g(t_hit, y_hit)|
MIN_GAP = 0.5       # instance family: true crossings are at least this far apart (and from the span ends)
PAIR_TOL = 1e-6     # compiled run vs driver-source run on the same inputs (a different step would differ by >= 1e-2)
MAX_STEP = 0.1      # ... and no accepted step is longer than this


class _ScriptExhausted(BaseException):
    pass


def sgn(x):
    x = float(x)
    return -1 if x < 0.0 else (1 if x > 0.0 else 0)


# --------------------------------------------------------------------------
# 2. step layer: scripted kernels through the real driver source
# --------------------------------------------------------------------------
STEP_DRIVERS = ("fixed", "fixed_ham", "rk45", "rk45_ham", "dop853", "dop853_ham", "symplectic")
DRIVER_FN = {"fixed": "_integrate_fixed_rk_until_event", "fixed_ham": "_integrate_fixed_rk_until_event_ham",
             "rk45": "_integrate_rk45_until_event", "rk45_ham": "_integrate_rk45_until_event_ham",
             "dop853": "_integrate_dop853_until_event", "dop853_ham": "_integrate_dop853_until_event_ham",
             "symplectic": "_integrate_symplectic_until_event"}


def script_step(driver: str, direction: int, signs: list, rejects: frozenset = frozenset()) -> dict:
    """Play the sign script `signs` (signs[0] = start point) through the real driver source.
    `rejects` = indices k (1-based accepted-step numbers) before which the scripted kernel first
    reports one rejected attempt (adaptive drivers only).  Returns {ev, overrun, error, out}."""
    import hiten.algorithms.integrators.rk as rk
    import hiten.algorithms.integrators.symplectic as sy

    n = len(signs) - 1
    ev = []
    st = {"k": 0, "rejected": set(), "calls": 0}
    dim = 6 if driver == "symplectic" else 2

    def state(k):
        y = np.zeros(dim)
        y[0], y[1] = float(signs[k]), float(k)
        return y

    def next_state():
        """(state, reject?) for the attempt the driver is making now."""
        st["calls"] += 1
        k = st["k"] + 1
        if k > n:
            raise _ScriptExhausted()
        if k in rejects and k not in st["rejected"]:
            st["rejected"].add(k)
            ev.append({"e": "reject"})
            return state(k), True
        st["k"] = k
        return state(k), False

    def g(t, y):
        return float(y[0])

    def crossed(gp, gn, d):
        res = bool(REAL["event_crossed"](gp, gn, d))
        ev.append({"e": "node", "s": sgn(gn), "gp": sgn(gp), "d": int(d), "crossed": res})
        return res

    # positions of (y0, y1, direction) in the positional argument list of each refine function
    RPOS = {"fixed": (2, 5, 8), "fixed_ham": (2, 5, 8), "symplectic": (2, 5, 8), "rk45": (2, 4, 8), "rk45_ham": (2, 4, 8),
            "dop853": (3, 6, 15), "dop853_ham": (2, 5, 14)}

    def refine_stub(*a, **k):
        i0, i1, idr = RPOS[driver]
        y0_, y1_ = a[i0], a[i1]
        ev.append({"e": "hit", "step": int(y1_[1]), "y0": int(y0_[1]), "y1": int(y1_[1]), "d": int(a[idr])})
        return float(y1_[1]), y1_.copy()

    zeros = lambda *a, **k: np.zeros(dim)          # noqa: E731  vector field / Hamiltonian derivative
    one = lambda *a, **k: 1.0                      # noqa: E731

    def fixed_kernel(*a, **k):
        y, rej = next_state()
        return y, None, None

    def rk45_kernel(*a, **k):
        y, rej = next_state()
        return y, y, (np.full(dim, 1e9) if rej else np.zeros(dim)), np.zeros((7, dim))

    def dop_kernel(*a, **k):
        y, rej = next_state()
        e = np.full(dim, 1e9) if rej else np.zeros(dim)
        return y, y, e, e, e.copy(), np.zeros((12, dim))

    def symp_update(q_ext, dt, order, omega, jac_H, clmo_H):
        y, _ = next_state()
        q_ext[0], q_ext[1] = y[0], y[1]

    t_vals = np.arange(n + 1, dtype=float)
    A = B = C = np.zeros(1)
    common_rk = dict(_event_crossed=crossed)
    adaptive = dict(_select_initial_step=one, _pi_accept_factor=one, _pi_reject_factor=one)
    out = {"overrun": False, "error": None}
    try:
        if driver in ("fixed", "fixed_ham"):
            fn = py_func(getattr(rk._FixedStepRK, DRIVER_FN[driver]))
            with patched(rk, rk_embedded_step_jit_kernel=fixed_kernel, rk_embedded_step_ham_jit_kernel=fixed_kernel,
                         _hamiltonian_rhs=zeros, _hermite_refine_in_step=refine_stub, **common_rk):
                if driver == "fixed":
                    res = fn(zeros, state(0), t_vals, A, B, C, g, direction, 1, 1e-9, 1e-12)
                else:
                    res = fn(state(0), t_vals, A, B, C, g, direction, 1, 1e-9, 1e-12, None, None, 1)
            hit, t_hit, y_hit = res[0], res[1], res[2]
        elif driver in ("rk45", "rk45_ham"):
            fn = py_func(getattr(rk._RK45, DRIVER_FN[driver]))
            with patched(rk, rk45_step_jit_kernel=rk45_kernel, rk45_step_ham_jit_kernel=rk45_kernel,
                         _hamiltonian_rhs=zeros, _rk45_refine_in_step=refine_stub, **common_rk, **adaptive):
                args = (state(0), 0.0, float(n), A, B, C, A, A, 1.0, 1.0, 1e9, 1e-12, 5, g, direction, 1, 1e-9, 1e-12)
                res = fn(zeros, *args) if driver == "rk45" else fn(*args, None, None, 1)
            hit, t_hit, y_hit = res[0], res[1], res[2]
        elif driver in ("dop853", "dop853_ham"):
            fn = py_func(getattr(rk._DOP853, DRIVER_FN[driver]))
            with patched(rk, dop853_step_jit_kernel=dop_kernel, dop853_step_ham_jit_kernel=dop_kernel,
                         _hamiltonian_rhs=zeros, _dop853_refine_in_step=refine_stub,
                         _dop853_refine_in_step_ham=refine_stub, **common_rk, **adaptive):
                args = (state(0), 0.0, float(n), A, B, C, A, A, A, 16, 7, A, A, 1.0, 1.0, 1e9, 1e-12, 8,
                        g, direction, 1, 1e-9, 1e-12)
                res = fn(zeros, *args) if driver == "dop853" else fn(*args, None, None, 1)
            hit, t_hit, y_hit = res[0], res[1], res[2]
        else:
            fn = py_func(sy._integrate_symplectic_until_event)
            with patched(sy, _recursive_update_poly=symp_update, _eval_hamiltonian_derivative=zeros,
                         _hermite_refine_event_symplectic=refine_stub, _event_crossed=crossed):
                res = fn(state(0), t_vals, None, None, 2, g, direction, 1e-9, 1e-12, 20.0)
            hit, t_hit, y_hit = res[0], res[1], res[2]
        out.update(hit=bool(hit), node=int(y_hit[1]), t=float(t_hit))
        if not hit:
            ev.append({"e": "end", "node": int(y_hit[1])})
    except _ScriptExhausted:
        out["overrun"] = True
    except Exception as ex:  # noqa
        out["error"] = f"{type(ex).__name__}: {str(ex)[:200]}"
    out["ev"] = ev
    out["consumed"] = st["k"]
    return out


REAL: dict = {}


def _bind_real():
    """Keep references to the real compiled helpers (they are called from the recorders)."""
    if REAL:
        return
    import hiten.algorithms.integrators.utils as ut
    REAL.update(event_crossed=ut._event_crossed, crossed_direction=ut._crossed_direction,
                bisection_update=ut._bisection_update, bracket_converged=ut._bracket_converged)


def step_trace(direction, signs, out):
    return {"kind": "step", "dir": direction, "g0": signs[0], "ev": out["ev"]}


# --------------------------------------------------------------------------
# 3. refine layer: scripted sign function through the real refine source
# --------------------------------------------------------------------------
REFINE_FNS = ("_hermite_refine_in_step", "_rk45_refine_in_step", "_dop853_refine_in_step",
              "_dop853_refine_in_step_ham", "_hermite_refine_event_symplectic")


class _OffDyadicGrid(Exception):
    pass


def _grid_int(scale):
    def xi(x):
        v = x * scale
        if v != math.floor(v):
            raise _OffDyadicGrid(f"bracket abscissa {x!r} is not on the dyadic grid 1/{scale}")
        return int(v)
    return xi


def _refine_recorders(log):
    """Recorders for the three bisection helpers (they never raise; abscissae are logged as floats
    and converted to exact integers on a dyadic grid afterwards)."""
    def crossed_direction(gl, gm, d):
        r = bool(REAL["crossed_direction"](gl, gm, d))
        log.append(("cd", sgn(gl), sgn(gm), int(d), r))
        return r

    def bisection_update(a, b, gl, mid, gm, cr):
        a2, b2, gl2 = REAL["bisection_update"](a, b, gl, mid, gm, cr)
        log.append(("bu", float(mid), sgn(gm), bool(cr), float(a2), float(b2), sgn(gl2)))
        return a2, b2, gl2

    def bracket_converged(a, b, h, xtol):
        r = bool(REAL["bracket_converged"](a, b, h, xtol))
        log.append(("bc", r))
        return r
    return dict(_crossed_direction=crossed_direction, _bisection_update=bisection_update,
                _bracket_converged=bracket_converged)


def _refine_events(log, dense_x, xi, x_hit):
    """Turn the helper log + the abscissae at which the dense interpolant was evaluated into
    zero/upd/conv/stop events."""
    ev = []
    it = iter(log)
    n_upd = sum(1 for e in log if e[0] == "bu")
    for e in it:
        if e[0] == "cd":
            continue
        if e[0] == "bu":
            ev.append({"e": "upd", "mid": xi(e[1]), "gm": e[2], "crossed": e[3], "a": xi(e[4]), "b": xi(e[5])})
        elif e[0] == "bc":
            ev.append({"e": "conv", "v": e[1]})
    # dense evaluations: one per iteration at mid, then the final one(s) at x_hit
    if len(dense_x) == n_upd + 2 and dense_x[-1] == dense_x[-2]:
        ev.append({"e": "zero", "mid": xi(dense_x[-1])})
        ev.append({"e": "stop", "x": xi(x_hit), "reason": "gtol"})
    elif len(dense_x) == n_upd + 1:
        ev.append({"e": "stop", "x": xi(x_hit), "reason": "xtol"})
    else:
        ev.append({"e": "stop", "x": xi(x_hit), "reason": "unexpected-evaluation-pattern"})
    return ev


def script_refine(name: str, direction: int, fsigns: list, xtol_cells: int) -> dict:
    import hiten.algorithms.integrators.rk as rk
    import hiten.algorithms.integrators.symplectic as sy
    N = len(fsigns) - 1
    log, dense_x = [], []
    recs, xi = _refine_recorders(log), _grid_int(N)

    def dense(*a):
        x = a[-2] if name in ("_hermite_refine_in_step", "_hermite_refine_event_symplectic") else \
            (a[3] if name == "_rk45_refine_in_step" else a[3])
        dense_x.append(float(x))
        return np.array([float(x)])

    class _OffGrid(Exception):
        pass

    def g(t, y):
        v = y[0] * N
        if v != math.floor(v):
            # the real bisection went below one xtol cell: the model never does (reported as a divergence)
            raise _OffGrid(f"event function evaluated at x = {y[0]!r}, inside a cell of the 1/{N} grid")
        return float(fsigns[int(v)])

    y0, y1, z = np.array([0.0]), np.array([1.0]), np.array([0.0])
    xtol, gtol = xtol_cells / N, 0.5
    none = lambda *a, **k: None   # noqa: E731
    out = {"error": None}
    try:
        if name == "_hermite_refine_in_step":
            with patched(rk, _hermite_eval_dense=dense, **recs):
                t_hit, y_hit = py_func(rk._hermite_refine_in_step)(g, 0.0, y0, z, 1.0, y1, z, 1.0, direction, xtol, gtol)
        elif name == "_rk45_refine_in_step":
            with patched(rk, _rk45_build_Q_cache=none, _rk45_eval_dense=dense, **recs):
                t_hit, y_hit = py_func(rk._rk45_refine_in_step)(g, 0.0, y0, 1.0, y1, 1.0, None, None, direction, xtol, gtol)
        elif name == "_dop853_refine_in_step":
            with patched(rk, _dop853_build_dense_cache=none, _dop853_eval_dense=dense, **recs):
                t_hit, y_hit = py_func(rk._dop853_refine_in_step)(None, g, 0.0, y0, z, 1.0, y1, z, 1.0, None, None, None,
                                                                  None, 16, 7, direction, xtol, gtol)
        elif name == "_dop853_refine_in_step_ham":
            with patched(rk, _dop853_eval_dense=dense, **recs):
                t_hit, y_hit = py_func(rk._dop853_refine_in_step_ham)(
                    g, 0.0, y0, z, 1.0, y1, z, 1.0, np.zeros((1, 1)), np.zeros((1, 1)), np.zeros(1), np.zeros((1, 1)),
                    1, 3, direction, xtol, gtol, None, None, 1)
        else:
            with patched(sy, _hermite_eval_dense_symplectic=dense, **recs):
                t_hit, y_hit = py_func(sy._hermite_refine_event_symplectic)(g, 0.0, y0, z, 1.0, y1, z, 1.0, direction, xtol, gtol)
        out["ev"] = _refine_events(log, dense_x, xi, float(t_hit))
        out["x"] = float(t_hit)
        out["y_consistent"] = bool(float(y_hit[0]) == float(t_hit))
    except MachineryError:
        raise
    except Exception as ex:  # noqa
        out["error"] = f"{type(ex).__name__}: {str(ex)[:200]}"
        out["ev"] = []
    return out


def refine_trace(direction, fsigns, xtol_cells, ncross, ev):
    return {"kind": "refine", "dir": direction, "n": len(fsigns) - 1, "xtol": xtol_cells, "gl0": fsigns[0],
            "f": fsigns, "ncross": ncross, "ev": ev}


# --------------------------------------------------------------------------
# 4. real runs on exact flows
# --------------------------------------------------------------------------
def _rot2(t, y):
    return np.array([y[1], -y[0]])


class RealFixtures:
    def __init__(self):
        self._c = {}

    def rot(self):
        if "rot" not in self._c:
            from hiten.algorithms.dynamics.rhs import create_rhs_system
            self._c["rot"] = create_rhs_system(_rot2, 2, "rotation")
        return self._c["rot"]

    def ham(self):
        if "ham" not in self._c:
            import c10
            self._c["ham"] = c10.Fixtures().get("ham")
        return self._c["ham"]


def exact_crossings(ga, gb, gc, th0, T):
    """True crossings of g = ga*x + gb*p + gc along (x, p) = (cos(th0+t), -sin(th0+t)), t in (0, T):
    list of (time, direction), sign of g just after t = 0, minimal gap to neighbours / span ends."""
    R = math.hypot(ga, gb)
    dl = math.atan2(gb, ga)              # g = R cos(phi + dl) + gc, phi = th0 + t
    ts = []
    if abs(gc) < R:
        al = math.acos(-gc / R)
        for base in (al, -al):
            k0 = math.floor((th0 + dl - base) / (2 * math.pi)) - 1
            for k in range(k0, k0 + int(T / (2 * math.pi)) + 4):
                t = base + 2 * math.pi * k - dl - th0
                if 1e-12 < t < T:
                    ts.append(t)
    ts = sorted(set(ts))
    gfun = lambda t: ga * math.cos(th0 + t) - gb * math.sin(th0 + t) + gc          # noqa: E731
    dg = lambda t: -ga * math.sin(th0 + t) - gb * math.cos(th0 + t)                # noqa: E731
    xs = [(t, 1 if dg(t) > 0 else -1) for t in ts]
    g0 = gfun(0.0)
    s1 = sgn(g0) if abs(g0) > 1e-9 else (1 if dg(0.0) > 0 else -1)
    pts = ([0.0] if abs(g0) <= 1e-9 else []) + ts
    gaps = [b - a for a, b in zip(pts, pts[1:])] + ([ts[0]] if ts and abs(g0) > 1e-9 else []) + ([T - ts[-1]] if ts else [])
    return xs, s1, (min(gaps) if gaps else T)


def real_run(fx: RealFixtures, driver: str, prob: dict, compiled_pair=False) -> dict:
    """One event-terminated integration of the exact-flow problem `prob` through the py_func source
    of `driver` with recorders; returns the step trace (with oracle), the refine trace and floats."""
    import hiten.algorithms.integrators.rk as rk
    import hiten.algorithms.integrators.symplectic as sy

    ga, gb, gc, th0, T, direction = (prob[k] for k in ("ga", "gb", "gc", "th0", "T", "dir"))
    hamlike = driver.endswith("_ham") or driver == "symplectic"
    ip = 3 if hamlike else 1                      # index of the momentum-like coordinate
    dim = 6 if hamlike else 2
    y0 = np.zeros(dim)
    y0[0], y0[ip] = math.cos(th0), -math.sin(th0)
    if prob.get("exact_start"):
        y0[0], y0[ip] = prob["exact_start"]
    xs, s1, gap = exact_crossings(ga, gb, gc, th0, T)
    if gap < MIN_GAP:
        raise MachineryError(f"instance family broken: crossings closer than {MIN_GAP}: {prob}")
    tstar = [t for t, _ in xs]

    calls = []                 # (t, g) of every event-function evaluation

    def g(t, y):
        v = ga * y[0] + gb * y[ip] + gc
        calls.append((float(t), float(v)))
        return v

    ev, nodes_t = [], [0.0]
    rlog, dense_x = [], []
    recs = _refine_recorders(rlog)

    def crossed(gp, gn, d):
        r = bool(REAL["event_crossed"](gp, gn, d))
        nodes_t.append(calls[-1][0])
        ev.append({"e": "node", "s": sgn(gn), "gp": sgn(gp), "d": int(d), "crossed": r})
        return r

    def dense_rec(real, xpos):
        def f(*a):
            dense_x.append(float(a[xpos]))
            return real(*a)
        return f

    def refine_via_source(real_fn, mod, dense_patches):
        def f(*a):
            ev.append({"e": "hit", "step": len(nodes_t) - 1, "y0": len(nodes_t) - 2, "y1": len(nodes_t) - 1,
                       "d": direction})
            with patched(mod, **dense_patches, **recs):
                return py_func(real_fn)(*a)
        return f

    xtol, gtol = prob["xtol"], prob["gtol"]
    res = None
    if driver in ("fixed", "fixed_ham", "symplectic"):
        nsteps = int(round(T / (prob["hs"] if driver == "symplectic" else prob["h"])))
        t_vals = np.linspace(0.0, T, nsteps + 1)
    if driver in ("fixed", "fixed_ham"):
        I = rk._RK8() if prob.get("order", 8) == 8 else (rk._RK4() if prob["order"] == 4 else rk._RK6())
        fn = py_func(getattr(rk._FixedStepRK, DRIVER_FN[driver]))
        pat = dict(_event_crossed=crossed, _hermite_refine_in_step=refine_via_source(
            rk._hermite_refine_in_step, rk, dict(_hermite_eval_dense=dense_rec(rk._hermite_eval_dense, 4))))
        with patched(rk, **pat):
            if driver == "fixed":
                res = fn(fx.rot().rhs, y0, t_vals, I._A, I._B_HIGH, I._C, g, direction, 1, xtol, gtol)
            else:
                res = fn(y0, t_vals, I._A, I._B_HIGH, I._C, g, direction, 1, xtol, gtol, *fx.ham().rhs_params)
    elif driver in ("rk45", "rk45_ham"):
        I = rk._RK45
        fn = py_func(getattr(I, DRIVER_FN[driver]))
        pat = dict(_event_crossed=crossed, _rk45_refine_in_step=refine_via_source(
            rk._rk45_refine_in_step, rk, dict(_rk45_eval_dense=dense_rec(rk._rk45_eval_dense, 3))))
        args = (y0, 0.0, T, I._A, I._B_HIGH, I._C, I._E, rk.RK45_P, 1e-10, 1e-10, MAX_STEP, 1e-14, 5, g, direction, 1, xtol, gtol)
        with patched(rk, **pat):
            res = fn(fx.rot().rhs, *args) if driver == "rk45" else fn(*args, *fx.ham().rhs_params)
    elif driver in ("dop853", "dop853_ham"):
        I = rk._DOP853
        fn = py_func(getattr(I, DRIVER_FN[driver]))
        pat = dict(_event_crossed=crossed,
                   _dop853_refine_in_step=refine_via_source(rk._dop853_refine_in_step, rk, dict(
                       _dop853_eval_dense=dense_rec(rk._dop853_eval_dense, 3))),
                   _dop853_refine_in_step_ham=refine_via_source(rk._dop853_refine_in_step_ham, rk, dict(
                       _dop853_eval_dense=dense_rec(rk._dop853_eval_dense, 3))))
        args = (y0, 0.0, T, I._A, I._B_HIGH, I._C, I._E5, I._E3, rk.DOP853_D, rk.DOP853_N_STAGES_EXTENDED,
                rk.DOP853_INTERPOLATOR_POWER, rk.DOP853_A, rk.DOP853_C, 1e-10, 1e-10, MAX_STEP, 1e-14, 8,
                g, direction, 1, xtol, gtol)
        with patched(rk, **pat):
            res = fn(fx.rot().rhs, *args) if driver == "dop853" else fn(*args, *fx.ham().rhs_params)
    else:
        fn = py_func(sy._integrate_symplectic_until_event)
        pat = dict(_event_crossed=crossed, _hermite_refine_event_symplectic=refine_via_source(
            sy._hermite_refine_event_symplectic, sy,
            dict(_hermite_eval_dense_symplectic=dense_rec(sy._hermite_eval_dense_symplectic, 4))))
        jac, clmo, _ = fx.ham().rhs_params
        with patched(sy, **pat):
            res = fn(y0, t_vals, jac, clmo, prob.get("sorder", 4), g, direction, xtol, gtol, 20.0)
    hit, t_hit, y_hit = bool(res[0]), float(res[1]), np.array(res[2], dtype=float)

    ivs = [sum(1 for ts in tstar if ts < t) for t in nodes_t]
    out = {"hit": hit, "t_hit": t_hit, "y_hit": [float(v) for v in y_hit], "driver": driver, "prob": prob}
    rtrace = None
    if hit:
        near = 0
        for j, ts in enumerate(tstar, 1):
            if abs(t_hit - ts) <= T_TOL:
                near = j
        out["t_err"] = min((abs(t_hit - ts) for ts in tstar), default=float("inf"))
        out["g_res"] = abs(ga * y_hit[0] + gb * y_hit[ip] + gc)
        ev.append({"e": "located", "near": near})
        # refine trace: the step is [t_a, t_b]; abscissae become integers on the grid of 2^K cells,
        # K = number of halvings (32-bit TLC integers: K <= 30; the family's tolerances need <= 26)
        K = sum(1 for e in rlog if e[0] == "bu") + 1
        t_a, t_b = nodes_t[-2], nodes_t[-1]
        h = t_b - t_a
        out["halvings"] = K
        if K <= 30 and dense_x:
            sc = 2 ** K
            gl0 = [e for e in ev if e["e"] == "node"][-1]["gp"]
            try:
                rev = _refine_events(rlog, dense_x, _grid_int(sc), dense_x[-1])
                rtrace = {"kind": "refine", "dir": direction, "n": sc, "xtol": int(math.floor(xtol / abs(h) * sc)),
                          "gl0": gl0, "ev": rev}
            except _OffDyadicGrid as ex:
                out["refine_problem"] = str(ex)
        else:
            out["refine_problem"] = f"bisection needed {K} halvings (the instance family's tolerances need at most 26)"
    else:
        ev.append({"e": "end", "node": len(nodes_t) - 1})
        out["end_node_is_last"] = bool(abs(t_hit - T) < 1e-12)
    strace = {"kind": "step", "dir": direction, "g0": sgn(calls[0][1]), "s1": s1, "xdirs": [d for _, d in xs],
              "ivs": ivs, "ev": ev}
    out["step_trace"], out["refine_trace"] = strace, rtrace
    out["max_node_gap"] = max((b - a for a, b in zip(nodes_t, nodes_t[1:])), default=0.0)
    return out


def compiled_run(fx: RealFixtures, driver: str, prob: dict):
    """The same problem through the public Integrator.integrate (compiled driver)."""
    import numba
    from numba import types
    import hiten.algorithms.integrators.rk as rk
    import hiten.algorithms.integrators.symplectic as sy
    from hiten.algorithms.types.configs import EventConfig
    from hiten.algorithms.types.options import EventOptions
    ga, gb, gc, th0, T, direction = (prob[k] for k in ("ga", "gb", "gc", "th0", "T", "dir"))
    hamlike = driver.endswith("_ham") or driver == "symplectic"
    ip = 3 if hamlike else 1
    key = (ga, gb, gc, ip)
    cache = fx._c.setdefault("ev", {})
    if key not in cache:
        def gfun(t, y):
            return ga * y[0] + gb * y[ip] + gc
        cache[key] = numba.njit(types.float64(types.float64, types.float64[:]), cache=False)(gfun)
    dim = 6 if hamlike else 2
    y0 = np.zeros(dim)
    y0[0], y0[ip] = math.cos(th0), -math.sin(th0)
    if prob.get("exact_start"):
        y0[0], y0[ip] = prob["exact_start"]
    system = fx.ham() if hamlike else fx.rot()
    if driver in ("fixed", "fixed_ham"):
        integ = rk.FixedRK(order=prob.get("order", 8))
        t_vals = np.linspace(0.0, T, int(round(T / prob["h"])) + 1)
    elif driver in ("rk45", "rk45_ham"):
        integ = rk._RK45(rtol=1e-10, atol=1e-10, max_step=MAX_STEP, min_step=1e-14)
        t_vals = np.array([0.0, T])
    elif driver in ("dop853", "dop853_ham"):
        integ = rk._DOP853(rtol=1e-10, atol=1e-10, max_step=MAX_STEP, min_step=1e-14)
        t_vals = np.array([0.0, T])
    else:
        integ = sy._ExtendedSymplectic(order=prob.get("sorder", 4))
        t_vals = np.linspace(0.0, T, int(round(T / prob["hs"])) + 1)
    sol = integ.integrate(system, y0, t_vals, event_fn=cache[key], event_cfg=EventConfig(direction=direction, terminal=True),
                          event_options=EventOptions(xtol=prob["xtol"], gtol=prob["gtol"]))
    return float(sol.times[-1]), np.array(sol.states[-1], dtype=float), len(sol.times)


def problems(quick: bool, rnd: random.Random):
    """Exact-flow instance family: affine event functions on the rotation flow, 3 directions,
    start on / off the surface, spans with 0..3 crossings."""
    evs = [("p", 0.0, 1.0, 0.0, 0.0, (1.0, 0.0)),       # g = p, start exactly on the surface (g0 = -0.0*.. = 0)
           ("x-half", 1.0, 0.0, -0.5, 0.0, None),        # g = x - 0.5: falling at pi/3, rising at 5pi/3
           ("generic", 0.6, 0.8, 0.3, 0.4, None),        # generic affine, generic start
           ("near", 0.0, 1.0, -0.001, 0.0, (1.0, 0.0)),  # g = p - 0.001: starts just below the surface, moving away
           ("never", 0.6, 0.8, 1.7, 0.0, None)]          # |c| > R: never crosses
    spans = [1.1, 4.0, 6.6] if not quick else [4.0, 6.6]
    tols = [(1e-7, 1e-300), (1e-12, 1e-7)]
    out = []
    for (name, ga, gb, gc, th0, exact) in evs:
        for T in spans:
            for d in (-1, 0, 1):
                xtol, gtol = tols[(len(out)) % 2]
                p = dict(name=name, ga=ga, gb=gb, gc=gc, th0=th0, T=T, dir=d, xtol=xtol, gtol=gtol, h=0.05, hs=0.005,
                         order=(4, 6, 8)[len(out) % 3], sorder=(2, 4, 6)[len(out) % 3])
                if exact:
                    p["exact_start"] = exact
                xs, s1, gap = exact_crossings(ga, gb, gc, th0, T)
                if gap >= MIN_GAP:
                    out.append(p)
    return out


# --------------------------------------------------------------------------
# TLC trace validation
# --------------------------------------------------------------------------
def tlc_traces(traces: list, cfgname: str, timeout=900, chunk=3000):
    import re
    rejected, verdict, pre, states = {}, {}, {}, 0
    for base in range(0, len(traces), chunk):
        part = traces[base:base + chunk]
        wd = workdir("c11t")
        tf = wd / "traces.json"
        tf.write_text(json.dumps(part))
        r = tlc(TRACE, CFG / cfgname, workers=1, env={"TRACE_FILE": str(tf)}, timeout=timeout)
        if r.error or not r.finished or r.rc == 124 or r.invariant_violated:
            raise MachineryError(f"trace validation ({cfgname}) failed to run: {r.error or r.invariant_violated}\n{r.out[-3000:]}")
        m = re.search(r'<<\s*"REJECTED",\s*\{(.*?)\}\s*>>', r.out, re.S)
        if m is None:
            raise MachineryError("trace spec did not print a REJECTED line\n" + r.out[-3000:])
        for t, l in re.findall(r"<<(\d+), (\d+)>>", m.group(1)):
            rejected[base + int(t) - 1] = int(l)
        for p in r.printed():
            if isinstance(p, dict) and "tid" in p:
                verdict[base + int(p["tid"]) - 1] = sorted(p["failed"]) if p["failed"] else []
                pre[base + int(p["tid"]) - 1] = bool(p["pre"])
        states += r.distinct
    return states, rejected, verdict, pre


def decide(ck, traces, metas, what):
    """Strict + Loose validation of `traces`; report violations with structural keys.
    metas[i] = (call site, case class, replay data)."""
    states, srej, _, _ = tlc_traces(traces, "EventLocateTrace.Strict.cfg")
    s2, lrej, verdict, pre = tlc_traces(traces, "EventLocateTrace.Loose.cfg")
    ck.cov["states"] += states + s2
    ck.cov["traces_validated_against_impl"] += len(traces)
    if lrej:
        i = sorted(lrej)[0]
        raise MachineryError(f"{what}: {len(lrej)} traces not loadable by the trace spec, e.g. {traces[i]} at event {lrej[i]}")
    bad_pre = [i for i, v in pre.items() if not v]
    if bad_pre:
        raise MachineryError(f"{what}: instance family broken (more than one true crossing in an accepted step): {traces[bad_pre[0]]}")
    nbad = 0
    for i, tr in enumerate(traces):
        site, cls, data = metas[i]
        failed = verdict.get(i)
        if failed is None:
            failed = ["trace-incomplete"]
        if not tr["ev"]:
            continue                       # the run raised; already reported by the caller
        if failed or i in srej:
            nbad += 1
            clause = failed[0] if failed else "diverges-from-algorithm"
            ck.violation(f"{site}|{cls}:{clause}",
                         f"{what}: {site} violates C11 ({failed or 'leaves the transcribed algorithm'}) "
                         f"at event {srej.get(i, '-')}: trace={json.dumps(tr)[:700]}",
                         data)
    ck.part(what, traces=len(traces), strict_rejected=len(srej), violating=nbad)
    return srej, verdict


def main(tier=None, replay=None):
    if replay:
        replay = os.path.abspath(replay)          # Check() moves the process to its scratch directory
    ck = Check("C11", "model_checking", tier)
    rnd = random.Random(ck.seed)
    import warnings
    warnings.filterwarnings("ignore")
    _bind_real()

    if replay:
        data = json.load(open(replay))["data"]
        if data["kind"] == "step":
            out = script_step(data["driver"], data["dir"], data["signs"], frozenset(data.get("rejects", [])))
            tr = step_trace(data["dir"], data["signs"], out)
        elif data["kind"] == "refine":
            out = script_refine(data["fn"], data["dir"], data["f"], data["xtol"])
            tr = refine_trace(data["dir"], data["f"], data["xtol"], data["ncross"], out["ev"])
        elif data["kind"] == "cross":
            n0 = len(ck.viol)
            cross_event_driven_cases(RealFixtures(), ck, only=data)
            if len(ck.viol) > n0:
                print(json.dumps(ck.viol[-1], indent=1, default=str))
                print(f"VIOLATION property=C11 replay={replay}")
                return 1
            return 0
        else:
            out = real_run(RealFixtures(), data["driver"], data["prob"])
            tr = out["refine_trace"] if data.get("which") == "refine" else out["step_trace"]
        _, srej, _, _ = tlc_traces([tr], "EventLocateTrace.Strict.cfg")
        _, _, verdict, _ = tlc_traces([tr], "EventLocateTrace.Loose.cfg")
        print(json.dumps({"trace": tr, "strict_rejected_at": srej.get(0), "failed_clauses": verdict.get(0),
                          "error": out.get("error"), "overrun": out.get("overrun")}, indent=1, default=str))
        if srej or verdict.get(0) or out.get("error") or out.get("overrun"):
            print(f"VIOLATION property=C11 replay={replay}")
            return 1
        return 0

    # 1. model
    runs = [("EventLocate.quick.cfg", "EventLocate.quick")] if ck.quick else \
        [("EventLocate.thorough.cfg", "EventLocate.thorough"), ("EventLocate.thorough3.cfg", "EventLocate.thorough3")]
    beh = []
    for cfgname, nm in runs:
        r = tlc(ALGO, CFG / cfgname, timeout=900, workers=4)
        ck.model(nm, r)
        beh += r.printed()
    steps, refs, seen = [], [], set()
    for p in beh:
        k = json.dumps(p, sort_keys=True)
        if k in seen:
            continue
        seen.add(k)
        (steps if p["layer"] == "step" else refs).append(p)
    steps.sort(key=lambda p: json.dumps(p, sort_keys=True))
    refs.sort(key=lambda p: json.dumps(p, sort_keys=True))
    if len(steps) < 300 or len(refs) < 300:
        raise MachineryError(f"model emitted too few behaviours ({len(steps)} step, {len(refs)} refine)")
    ck.part("behaviours", step=len(steps), refine=len(refs))

    # 2. step layer through the seven driver sources
    traces, metas = [], []
    for p in steps:
        d = p["dir"]
        exp_hit = p["pc"] == "hit"
        # a reported hit must stop the walk: give the driver more nodes than it may consume
        signs = p["g"] + ([rnd.choice((-1, 0, 1)) for _ in range(2)] if exp_hit else [])
        exp_consumed = p["hitStep"] if exp_hit else len(signs) - 1
        for drv in STEP_DRIVERS:
            variants = [frozenset()]
            if drv in ("rk45", "rk45_ham", "dop853", "dop853_ham") and len(signs) >= 2:
                ks = list(range(1, len(signs)))
                variants.append(frozenset(rnd.sample(ks, min(len(ks), 2))))      # rejected attempts, seeded
            for rej in variants:
                out = script_step(drv, d, signs, rej)
                ck.count(("step", drv, d, tuple(signs), tuple(sorted(rej))), len(signs) >= 3)
                tr = step_trace(d, signs, out)
                data = {"kind": "step", "driver": drv, "dir": d, "signs": signs, "rejects": sorted(rej)}
                bad = (out["overrun"] or out["error"] or out.get("hit") != exp_hit
                       or out.get("node") != exp_consumed or out["consumed"] != exp_consumed)
                if bad:
                    cls = "overrun" if out["overrun"] else ("raises" if out["error"] else "outcome-differs-from-model")
                    ck.violation(f"{DRIVER_FN[drv]}|step:{cls}",
                                 f"sign script {signs} dir {d} rejects {sorted(rej)}: driver returned {out}, model says "
                                 f"{p['pc']} at step {p['hitStep']}", data)
                traces.append(tr)
                metas.append((DRIVER_FN[drv], "step", data))
        if len(ck.cov["samples"]) < 2 and len(signs) >= 5 and p["pc"] == "hit":
            ck.sample({"script": signs, "dir": d, "model": p["pc"], "hitStep": p["hitStep"], "trace": traces[-1]["ev"]})
    decide(ck, traces, metas, "step_replay")

    # 3. refine layer through the five refine sources
    traces, metas = [], []
    for p in refs:
        for fn in REFINE_FNS:
            out = script_refine(fn, p["dir"], p["f"], p["xtol"])
            ck.count(("refine", fn, p["dir"], tuple(p["f"]), p["xtol"]), p["ncross"] >= 1)
            data = {"kind": "refine", "fn": fn, "dir": p["dir"], "f": p["f"], "xtol": p["xtol"], "ncross": p["ncross"]}
            N = len(p["f"]) - 1
            if out["error"] or out["x"] * N != p["xhit"] or not out["y_consistent"]:
                ck.violation(f"{fn}|refine:result-differs-from-model",
                             f"sign function {p['f']} dir {p['dir']} xtol {p['xtol']} cells: returned {out}, model says "
                             f"x = {p['xhit']}/{N} ({p['reason']})", data)
            traces.append(refine_trace(p["dir"], p["f"], p["xtol"], p["ncross"], out["ev"]))
            metas.append((fn, "refine", data))
        if len(ck.cov["samples"]) < 4 and p["ncross"] == 1 and len(p["path"]) >= 3:
            ck.sample({"f": p["f"], "dir": p["dir"], "xtol_cells": p["xtol"], "model_path": p["path"], "trace": traces[-1]["ev"]})
    decide(ck, traces, metas, "refine_replay")

    # 4. real runs on exact flows; uniformity across the seven drivers
    fx = RealFixtures()
    probs = problems(ck.quick, rnd)
    straces, smetas, rtraces, rmetas = [], [], [], []
    t_err = g_res = gap = 0.0
    halv = 0
    uniform = {}
    t0 = time.time()
    for pi, prob in enumerate(probs):
        for drv in STEP_DRIVERS:
            data = {"kind": "real", "driver": drv, "prob": prob}
            ck.count(("real", drv, json.dumps(prob, sort_keys=True)), True)
            try:
                out = real_run(fx, drv, prob)
            except MachineryError:
                raise
            except Exception as ex:  # noqa
                import traceback
                from common import REPO
                frames = traceback.extract_tb(ex.__traceback__)
                if not frames or not frames[-1].filename.startswith(str(REPO)):
                    raise                      # the harness failed, not the library
                ck.violation(f"{DRIVER_FN[drv]}|real:raises-{type(ex).__name__}",
                             f"event-terminated integration raised {type(ex).__name__}: {str(ex)[:200]} for {prob}", data)
                continue
            straces.append(out["step_trace"])
            smetas.append((DRIVER_FN[drv], f"real-{prob['name']}-dir{prob['dir']}", data))
            if out.get("refine_problem"):
                ck.violation(f"{DRIVER_FN[drv]}|real-refine:bisection-does-not-follow-the-dyadic-bracket",
                             f"{out['refine_problem']} for {prob}; located t = {out['t_hit']}", dict(data, which="refine"))
            if out["refine_trace"] is not None:
                rtraces.append(out["refine_trace"])
                rmetas.append((DRIVER_FN[drv], f"real-refine-{prob['name']}-dir{prob['dir']}", dict(data, which="refine")))
            if out["hit"]:
                t_err, g_res = max(t_err, out["t_err"]), max(g_res, out["g_res"])
                halv = max(halv, out["halvings"])
                if out["g_res"] > G_TOL:
                    ck.violation(f"{DRIVER_FN[drv]}|real:event-residual-above-tolerance",
                                 f"|g(t_hit, y_hit)| = {out['g_res']:.3e} > {G_TOL} for {prob}", data)
            elif not out.get("end_node_is_last", True):
                ck.violation(f"{DRIVER_FN[drv]}|real:no-event-does-not-return-span-end",
                             f"no event, but returned time {out['t_hit']} != {prob['T']}", data)
            gap = max(gap, out["max_node_gap"])
            uniform.setdefault(pi, set()).add((out["hit"], out["step_trace"]["ev"][-1].get("near")))
        if len(ck.cov["samples"]) < 6 and out["hit"]:
            ck.sample({"problem": prob, "driver": drv, "t_hit": out["t_hit"], "step_trace": out["step_trace"]})
    ssrej, sver = decide(ck, straces, smetas, "real_step")
    rsrej, rver = decide(ck, rtraces, rmetas, "real_refine")
    nonuni = [pi for pi, s in uniform.items() if len(s) != 1]
    for pi in nonuni:
        ck.violation("event-drivers|uniformity:drivers-disagree-on-the-same-problem",
                     f"problem {probs[pi]}: outcomes (hit, crossing index) {sorted(uniform[pi], key=str)}",
                     {"kind": "real", "driver": "rk45", "prob": probs[pi]})
    ck.part("real_runs", problems=len(probs), runs=len(straces), wall_s=round(time.time() - t0, 1),
            t_err_max=t_err, t_tol=T_TOL, margin_low_t=(T_TOL / t_err if t_err else None), margin_high_t=MIN_GAP / T_TOL,
            max_halvings=halv, g_res_max=g_res, g_tol=G_TOL, margin_low_g=(G_TOL / g_res if g_res else None),
            max_accepted_step=gap, min_crossing_gap=MIN_GAP, nonuniform_problems=len(nonuni))

    # 4b. paired compiled runs (bit-identical to the py_func source run) and the wrapper on top
    t0 = time.time()
    pairs = bits = 0
    pair_diff = 0.0
    pp = [p for p in probs if p["name"] == "p" and p["dir"] == 0 and p["T"] == 4.0][:1] + \
         ([] if ck.quick else [p for p in probs if p["name"] == "x-half" and p["dir"] == 1 and p["T"] == 6.6][:1])
    for prob in pp:
        for drv in (STEP_DRIVERS if not ck.quick else ("fixed", "rk45_ham", "dop853", "symplectic")):
            src = real_run(fx, drv, prob)
            tc, yc, _ = compiled_run(fx, drv, prob)
            pairs += 1
            # bit-identity is the expectation (and recorded); the adaptive RK45 controller evaluates
            # np.linalg.norm / ** through different libraries when interpreted, so node times differ in the
            # last bits and the located time at the 1e-9 level: required is agreement far below one step
            bits += bool(same_bits(tc, src["t_hit"]) and same_bits(yc, np.array(src["y_hit"])))
            dpair = max(abs(tc - src["t_hit"]), float(np.abs(yc - np.array(src["y_hit"])).max()))
            pair_diff = max(pair_diff, dpair)
            if not dpair <= PAIR_TOL:
                ck.violation(f"{DRIVER_FN[drv]}|compiled-differs-from-source",
                             f"compiled Integrator.integrate returns ({tc}, {yc}) but the driver source gives "
                             f"({src['t_hit']}, {src['y_hit']}) for {prob}", {"kind": "real", "driver": drv, "prob": prob})
    ck.part("compiled_pairs", pairs=pairs, bit_identical=bits, max_diff=pair_diff, tol=PAIR_TOL,
            margin_low=(PAIR_TOL / pair_diff if pair_diff else None), wall_s=round(time.time() - t0, 1))
    cross = cross_event_driven_cases(fx, ck)
    ck.part("cross_event_driven", cases=cross)

    # 5. binding self-tests: corrupted traces (including the LAST event) must be rejected
    # (only traces that were accepted take part: a corrupted copy of a rejected trace proves nothing)
    good = [t for i, t in enumerate(straces) if t["ev"] and t["ev"][-1]["e"] == "located" and i not in ssrej and not sver.get(i)]
    rgood = [t for i, t in enumerate(rtraces) if i not in rsrej and not rver.get(i) and len(t["ev"]) >= 3]
    if not (good and rgood):
        ck.notes.append("binding self-test skipped: no accepted real trace available")
    else:
        a1 = json.loads(json.dumps(rnd.choice(good)))
        a1["ev"][-1]["near"] += 1                                    # last event: wrong crossing located
        a2 = json.loads(json.dumps(rnd.choice(good)))
        k = next(i for i, e in enumerate(a2["ev"]) if e["e"] == "node")
        a2["ev"][k]["s"] = -a2["ev"][k]["s"] if a2["ev"][k]["s"] else 1   # a node sign off the trajectory
        a3 = json.loads(json.dumps(rnd.choice(rgood)))
        a3["ev"][-1]["x"] += 1                                       # last event: abscissa outside the algorithm
        a4 = json.loads(json.dumps(rnd.choice(rgood)))
        del a4["ev"][0]                                              # dropped event
        _, srej, _, _ = tlc_traces([a1, a2, a3, a4], "EventLocateTrace.Strict.cfg")
        _, _, ver, _ = tlc_traces([a1, a2], "EventLocateTrace.Loose.cfg")
        if not ({2, 3} <= set(srej)) or "FirstOnTrajectory" not in (ver.get(0) or []) or not ver.get(1):
            raise MachineryError(f"binding self-test: corrupted traces not caught (strict {srej}, loose {ver})")
        ck.part("selftest", corrupted_traces_rejected=4)

    ck.cov["rule"] = ("cases = (terminal behaviour of the TLC model) x (driver or refine function) replayed through the real "
                      "source, plus (exact-flow problem) x (driver) real runs; non-trivial = script of >= 2 steps / sign "
                      "function with a crossing / every real run")
    ck.cov["exhaustive"] = True
    ck.assumptions += [
        "event functions have at most one crossing per accepted step (enforced: crossings >= 0.5 apart, steps <= 0.1, "
        "checked by TLC on every real trace); with several crossings in a step the refine model pins which root is returned",
        "B2: the driver and refine *sources* are observed (py_func); compiled runs through Integrator.integrate on the same "
        "inputs agree to 1e-6 (bit-identical except for the RK45 controller's norm/pow rounding)",
        "exact flows: rotation and harmonic polynomial Hamiltonian with affine event functions; distance of y_hit from the "
        "exact trajectory (accuracy of the interpolants) is not decided; |g(t_hit,y_hit)| and |t_hit - t*| are contracts",
        "non-terminal events (terminal=False) are not part of the property",
    ]
    import c11back
    c11back.run(ck)      # backward time and time-dependent events through the public integrators (Contracts.tla)
    import c11hist
    c11hist.run(ck)      # closure histories (same def, different captured constant) and binding step limits without a crossing
    return ck.finish()


def cross_event_driven_cases(fx: RealFixtures, ck: Check, only=None) -> int:
    """_SingleHitBackend._cross_event_driven on top of the DOP853 event driver (compiled)."""
    from hiten.algorithms.poincare.core.events import _PlaneEvent
    from hiten.algorithms.poincare.singlehit.backend import _SingleHitBackend
    be = _SingleHitBackend()
    n = 0
    # rotation from (1, 0): x = cos t, y = -sin t.  plane y = 0 crossed at pi (rising), 2pi (falling), ...
    cases = [("y", 0.0, None, 0.5, 4.0, math.pi), ("y", 0.0, 1, 0.5, 7.0, math.pi), ("y", 0.0, -1, 0.5, 7.0, 2 * math.pi),
             ("x", 0.5, None, 0.2, 7.0, math.pi / 3), ("x", 0.5, 1, 0.2, 7.0, 5 * math.pi / 3), ("x", 0.5, -1, 2.0, 4.0, None)]
    for coord, val, d, t0, tmax, expect in cases:
        if only is not None and (coord, val, d, t0, tmax) != (only["coord"], only["value"], only["direction"], only["t0"], only["tmax"]):
            continue
        surf = _PlaneEvent(coord=coord, value=val, direction=d)
        hit = be._cross_event_driven(np.array([1.0, 0.0]), dynsys=fx.rot(), surface=surf, t0=t0, tmax=tmax, forward=1)
        n += 1
        ck.count(("cross", coord, val, d, t0, tmax), True)
        data = {"kind": "cross", "coord": coord, "value": val, "direction": d, "t0": t0, "tmax": tmax}
        if expect is None:
            if hit is not None:
                ck.violation("_cross_event_driven|reports-a-crossing-where-none-is-admissible", f"{data}: {hit}", data)
        elif hit is None or abs(hit.time - expect) > T_TOL:
            ck.violation("_cross_event_driven|not-the-first-admissible-crossing",
                         f"{data}: expected first admissible crossing at t = {expect}, got {hit}", data)
    return n


if __name__ == "__main__":
    sys.exit(main())
