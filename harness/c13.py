"""C13 -- continuation: valid members, bounds, honest bookkeeping.

Model: spec/algo/Continuation.tla (MCContinuation.tla instance).
  1. TLC exhaustive: algorithm => requirement (all invariants, ShrinksOnReject, Terminates).
  2. TLC emits every terminal behaviour (config, corrector script, expected outcome).
  3. spec -> code: each script is played to the real _PredictorCorrectorContinuationBackend.run
     through a scripted corrector and a recording stepper; final outcome compared with the model.
  4. code -> spec: the recorded event traces are validated by TLC against ContinuationTrace.tla
     (strict = algorithm; loose = requirement only, used to classify strict rejections).
"""
from __future__ import annotations

import json
import random
import sys

import numpy as np

from common import SPEC, Check, ContractSet, MachineryError, tlc, validate_traces, exact_int

ALGO = SPEC / "algo" / "MCContinuation.tla"
TRACE = SPEC / "trace" / "ContinuationTrace.tla"
CFG = SPEC / "cfg"


class _ScriptExhausted(BaseException):
    pass


def run_script(cfg: dict, script: list) -> dict:
    """Drive the real continuation backend with a scripted corrector.  Returns recorded events
    and the final observable outcome, all as exact integers."""
    from hiten.algorithms.continuation.backends.pc import _PredictorCorrectorContinuationBackend
    from hiten.algorithms.continuation.stepping import make_natural_stepper, make_secant_stepper
    from hiten.algorithms.continuation.stepping.support import _NullStepSupport, _VectorSpaceSecantSupport
    from hiten.algorithms.continuation.types import ContinuationBackendRequest

    events: list[dict] = []
    pos = [0]

    def predictor(last, step):
        return np.asarray(last, dtype=float) + np.asarray(step, dtype=float)

    def representation(x):
        return np.asarray(x, dtype=float)

    def corrector(prediction):
        if pos[0] >= len(script):
            raise _ScriptExhausted()
        o = script[pos[0]]
        pos[0] += 1
        if o["k"] == "acc":
            return np.asarray(prediction, dtype=float) + float(o["d"]), 0.0, True, {"period": 1.0}
        if o["k"] == "rej":
            return np.asarray(prediction, dtype=float), 1.0, False
        raise RuntimeError("scripted corrector failure")

    base_factory = make_secant_stepper() if cfg["stepper"] == "secant" else make_natural_stepper()

    def factory(*a):
        st = base_factory(*a)
        p0, a0, r0 = st.predict, st.on_accept, st.on_reject

        def predict(last, step):
            pr = p0(last, step)
            events.append({"e": "predict", "last": exact_int(np.asarray(last).ravel()[0]),
                           "step": exact_int(np.asarray(step).ravel()[0]),
                           "pred": exact_int(np.asarray(pr.prediction).ravel()[0])})
            return pr

        def on_accept(**kw):
            s = a0(**kw)
            events.append({"e": "accept", "x": exact_int(np.asarray(kw["new_solution"]).ravel()[0]),
                           "newstep": exact_int(np.asarray(s).ravel()[0])})
            return s

        def on_reject(**kw):
            s = r0(**kw)
            events.append({"e": "reject", "kind": script[pos[0] - 1]["k"],
                           "newstep": exact_int(np.asarray(s).ravel()[0])})
            return s

        st.predict, st.on_accept, st.on_reject = predict, on_accept, on_reject
        return st

    pol = cfg["policy"]
    if pol == "none":
        shrink = None
    elif pol == "quarter":
        shrink = lambda s: s * 0.25
    elif pol == "double":
        shrink = lambda s: s * 2.0
    else:
        def shrink(s):
            raise ValueError("policy raises")

    backend = _PredictorCorrectorContinuationBackend(
        stepper_factory=factory,
        support_factory=_VectorSpaceSecantSupport if cfg["stepper"] == "secant" else _NullStepSupport)
    req = ContinuationBackendRequest(
        seed_repr=np.array([float(cfg["seed"])]),
        stepper_fn=representation if cfg["stepper"] == "secant" else predictor,
        predictor_fn=predictor,
        parameter_getter=lambda r: np.asarray(r, dtype=float),
        corrector=corrector,
        step=np.array([float(cfg["step0"])]),
        target=np.array([[float(cfg["tmin"])], [float(cfg["tmax"])]]),
        max_members=cfg["maxMembers"], max_retries_per_step=cfg["maxRetries"],
        shrink_policy=shrink, step_min=float(cfg["smin"]), step_max=float(cfg["smax"]), metadata={})
    out = {"overrun": False, "error": None}
    try:
        resp = backend.run(request=req)
        info = resp.info
        fin = {"e": "finish", "fam": [exact_int(np.asarray(m).ravel()[0]) for m in resp.family_repr],
               "acc": int(info["accepted_count"]), "rej": int(info["rejected_count"]),
               "iters": int(info["iterations"]), "fstep": exact_int(np.asarray(info["final_step"]).ravel()[0])}
        events.append(fin)
        out["final"] = fin
        out["params"] = [exact_int(np.asarray(p).ravel()[0]) for p in info["parameter_values"]]
        out["n_aux"] = len(info["aux"])
    except _ScriptExhausted:
        out["overrun"] = True
    except Exception as ex:  # noqa
        out["error"] = repr(ex)
    out["events"] = events
    out["consumed"] = pos[0]
    return out


def classify(cfg, out) -> str:
    """Name the C13 clause a real run violates (requirement evaluated directly on the observation)."""
    ev = out["events"]
    fin = out.get("final")
    fam = fin["fam"] if fin else None
    intgt = lambda p: cfg["tmin"] <= p <= cfg["tmax"]
    if fam is not None:
        if len(fam) > max(cfg["maxMembers"], 1):
            return "member-limit-exceeded"
        if any(not intgt(p) for p in fam[:-1]):
            return "member-before-last-outside-target"
        n_acc = sum(1 for e in ev if e["e"] == "accept")
        n_rej = sum(1 for e in ev if e["e"] == "reject")
        n_it = sum(1 for e in ev if e["e"] == "predict")
        if fin["acc"] != 1 + n_acc or fin["rej"] != n_rej or fin["iters"] != n_it or fin["acc"] != len(fam):
            return "counts-differ-from-events"
        if out.get("params") is not None and (len(out["params"]) != len(fam) or out["params"] != fam):
            return "parameter-values-misaligned"
    for e in ev:
        if e["e"] in ("accept", "reject") and not (cfg["smin"] <= abs(e["newstep"]) <= cfg["smax"]):
            return "step-outside-min-max"
    run = 0
    for e in ev:
        if e["e"] == "reject":
            run += 1
            if run > cfg["maxRetries"] + 1:
                return "retries-exceed-limit"
        elif e["e"] == "accept":
            run = 0
    if out["overrun"]:
        return "continues-after-model-stops"
    return "diverges-from-algorithm"


def gen_behaviours(ck: Check, cfgfile: str, *, simulate=None, seed=None, timeout=900, workers="auto"):
    r = tlc(ALGO, CFG / cfgfile, workers=workers, simulate=simulate, seed=seed, timeout=timeout,
            depth=40 if simulate else None)
    if r.error or (not simulate and not r.ok):
        raise MachineryError(f"generation run failed: {r.error}\n{r.out[-2000:]}")
    return r, r.printed()


def family_part(ck: Check):
    """End-to-end families through the real interface (aux-period alignment, instantiation, predictor, counters)."""
    import math
    from hiten import System
    from hiten.algorithms.continuation.options import OrbitContinuationOptions
    from hiten.algorithms.dynamics.base import _propagate_dynsys
    from hiten.algorithms.types.states import SynodicState
    cs = ContractSet(ck, "family_contracts")
    system = System.from_bodies("earth", "moon")
    L = system.get_libration_point(1)
    seeds = [("halo", dict(amplitude_z=0.2, zenith="southern"), SynodicState.Z, 0.005)]
    if not ck.quick:
        seeds.append(("lyapunov", dict(amplitude_x=4e-3), SynodicState.X, 2e-4))
    for fam, kw, comp, step in seeds:
        for stepper in ("natural", "secant"):
            for scenario in ("leave-target", "member-limit", "forced-rejections"):
                seed = L.create_orbit(fam, **kw)
                seed.correct()
                cfg = seed.continuation_config
                seed.continuation_config = cfg.merge(stepper=stepper) if hasattr(cfg, "merge") else cfg
                p0 = float(seed.initial_state[comp])
                comps = list(getattr(seed.continuation_config, "state", (comp,)))
                mm = 5
                if scenario == "leave-target":
                    lo, hi, st = p0 - 1e-9, p0 + 2.5 * step, step
                elif scenario == "member-limit":
                    lo, hi, st, mm = p0 - 1.0, p0 + 1.0, step, 3
                else:
                    lo, hi, st = p0 - 1.0, p0 + 1.0, 64 * step
                # the continuation parameter may have several components (e.g. (X, Y) for Lyapunov orbits): only `comp` is stepped
                tgt = ([lo if c == comp else -10.0 for c in comps], [hi if c == comp else 10.0 for c in comps])
                stepv = tuple(st if c == comp else 1e-10 for c in comps)   # options require |step| >= step_min
                ci = comps.index(comp)
                label = f"{fam}|{stepper}|{scenario}"
                ck.count(("family", label), True)
                opts = OrbitContinuationOptions(target=tgt, step=stepv, max_members=mm, max_retries_per_step=8, step_min=1e-10,
                                                step_max=1.0, shrink_policy=None, extra_params=seed.correction_options)
                try:
                    res = seed.generate(opts)
                except Exception as ex:
                    ck.violation(f"orbit.generate|raises:{type(ex).__name__}", f"{label}: {ex!r}"[:300], {"case": label})
                    continue
                t = cs.trace(label, {"member_bound": -100, "only_last_outside_target": -100, "counts_consistent": -100,
                                     "parameter_alignment": -120, "closure_with_own_period": -60, "offset_is_current_step": -90},
                             {"family": fam, "stepper": stepper, "scenario": scenario})
                famv = list(res.family)
                params = [float(np.asarray(p).ravel()[ci]) for p in res.parameter_values]
                cs.obs(t, "member_bound", 0.0 if len(famv) <= mm else 1.0)
                inside = [lo <= p <= hi for p in params]
                cs.obs(t, "only_last_outside_target", 0.0 if all(inside[:-1]) else 1.0)
                ok = (res.accepted_count == len(famv) == len(params) and res.iterations == res.accepted_count - 1 + res.rejected_count
                      # a run stops because a member left the target interval or because the member bound was reached (with the
                      # secant stepper `step` is an arc length: the stepped component may advance too slowly to leave the interval)
                      and (scenario != "leave-target" or not inside[-1] or len(famv) == mm)
                      and (scenario != "member-limit" or len(famv) == mm))
                cs.obs(t, "counts_consistent", 0.0 if ok else 1.0)
                if scenario == "forced-rejections":
                    ck.part("family_rejections", **{label: int(res.rejected_count)})
                cs.obs(t, "parameter_alignment", max(abs(float(o.initial_state[comp]) - p) for o, p in zip(famv, params)))
                worst = 0.0
                for o in famv:
                    x0 = np.asarray(o.initial_state, dtype=float)
                    sol = _propagate_dynsys(system.dynsys, x0, 0.0, float(o.period), forward=1, steps=2, method="adaptive", order=8,
                                            rtol=1e-13, atol=1e-13)
                    worst = max(worst, float(np.linalg.norm(np.asarray(sol.states[-1]) - x0)))
                cs.obs(t, "closure_with_own_period", worst)
                # natural stepping in a coordinate the corrector holds fixed: consecutive parameters differ by step / 2^k
                off = 0.0
                if stepper == "natural":
                    for a, b in zip(params, params[1:]):
                        off = max(off, min(abs((b - a) - st / 2 ** k) for k in range(0, 12)))
                cs.obs(t, "offset_is_current_step", off)
                if len(ck.cov["samples"]) < 8:
                    ck.sample({"family_case": label, "parameters": params, "periods": [float(o.period) for o in famv],
                               "accepted": res.accepted_count, "rejected": res.rejected_count, "iterations": res.iterations})
    # spellings of the target interval: "(min,max) for 1-D or (2,m)"; the options object normalises them (component-wise min / max),
    # so a run must not depend on the spelling.  Downward continuation of the halo family with the target written four ways.
    fam, kw, comp, step = seeds[0]
    ref_params = None
    for spelling in ("(2,1) ascending", "(2,1) descending", "1-D ascending", "1-D descending"):
        seed = L.create_orbit(fam, **kw)
        seed.correct()
        p0 = float(seed.initial_state[comp])
        lo, hi = p0 - 2.5 * step, p0 + 1e-9
        tgt = {"(2,1) ascending": ([lo], [hi]), "(2,1) descending": ([hi], [lo]), "1-D ascending": (lo, hi), "1-D descending": (hi, lo)}[spelling]
        label = f"{fam}|natural|target-spelling={spelling}"
        ck.count(("family", label), True)
        try:
            opts = OrbitContinuationOptions(target=tgt, step=(-step,), max_members=6, max_retries_per_step=8, step_min=1e-10,
                                            step_max=1.0, shrink_policy=None, extra_params=seed.correction_options)
            res = seed.generate(opts)
        except Exception as ex:
            ck.violation(f"orbit.generate|target-spelling|raises:{type(ex).__name__}", f"{label}: {ex!r}"[:300], {"case": label})
            continue
        t = cs.trace(label, {"target_normalised": -130, "only_last_outside_target": -100, "spelling_invariance": -100, "leaves_target": -100},
                     {"family": fam, "stepper": "natural", "scenario": "target-spelling"})
        tn = np.asarray(opts.target, dtype=float)
        cs.obs(t, "target_normalised", (abs(float(tn[0, 0]) - lo) + abs(float(tn[1, 0]) - hi)) if tn.shape == (2, 1) else 1.0)
        params = [float(np.asarray(p).ravel()[0]) for p in res.parameter_values]
        inside = [lo <= p <= hi for p in params]
        cs.obs(t, "only_last_outside_target", 0.0 if all(inside[:-1]) else 1.0)
        cs.obs(t, "leaves_target", 0.0 if (len(params) >= 3 and (not inside[-1] or len(params) == 6)) else 1.0)
        if ref_params is None:
            ref_params = params
        cs.obs(t, "spelling_invariance", 0.0 if (len(params) == len(ref_params) and max(abs(a - b) for a, b in zip(params, ref_params)) < 1e-12) else 1.0)
    # "every member carries its OWN period": a finely resolved family (step 1e-6: neighbouring periods differ by ~1e-7 relative) and a
    # seed rebuilt from a converged state whose period was never set; each member's period against an independent re-correction
    fam, kw, comp, step = seeds[0]
    for scen in ("fine-step", "period-less-seed"):
        label = f"{fam}|natural|{scen}"
        ck.count(("family", label), True)
        try:
            seed = L.create_orbit(fam, **kw)
            seed.correct()
            if scen == "period-less-seed":
                seed = L.create_orbit(fam, initial_state=np.asarray(seed.initial_state, dtype=float).copy(),
                                      **({"zenith": kw["zenith"]} if "zenith" in kw else {}))
            p0 = float(seed.initial_state[comp])
            st = 1e-6 if scen == "fine-step" else step
            opts = OrbitContinuationOptions(target=([p0 - 1e-9], [p0 + 10 * st]), step=(st,), max_members=4, max_retries_per_step=8,
                                            step_min=1e-10, step_max=1.0, shrink_policy=None, extra_params=seed.correction_options)
            res = seed.generate(opts)
        except Exception as ex:
            ck.violation(f"orbit.generate|{scen}|raises:{type(ex).__name__}", f"{label}: {ex!r}"[:300], {"case": label})
            continue
        t = cs.trace(label, {"member_period_is_its_own": -85, "members_generated": -100}, {"family": fam, "stepper": "natural", "scenario": scen})
        members = list(res.family)[1:]
        cs.obs(t, "members_generated", 0.0 if len(members) >= 2 else 1.0)
        worst = 0.0
        for o in members:
            o2 = L.create_orbit(fam, initial_state=np.asarray(o.initial_state, dtype=float).copy(), **({"zenith": kw["zenith"]} if "zenith" in kw else {}))
            o2.correct()
            worst = max(worst, 1.0 if o.period is None else abs(float(o.period) - float(o2.period)))
        cs.obs(t, "member_period_is_its_own", worst)            # observed ~1e-12 (the re-correction converges in 0 iterations)
    # spellings of the continuation STATE selection: a scalar enum member (also the one whose value is 0), a plain int, a tuple, a list
    ref_params = None
    stepx = 2e-4
    for spelling, val in (("(SynodicState.X,)", (SynodicState.X,)), ("SynodicState.X", SynodicState.X), ("0", 0), ("[0]", [0])):
        label = f"lyapunov|natural|state-spelling={spelling}"
        ck.count(("family", label), True)
        try:
            seed = L.create_orbit("lyapunov", amplitude_x=4e-3)
            seed.correct()
            seed.continuation_config = seed.continuation_config.merge(stepper="natural", state=val)
            p0 = float(seed.initial_state[SynodicState.X])
            lo, hi = p0 - 1e-9, p0 + 2.5 * stepx
            opts = OrbitContinuationOptions(target=([lo], [hi]), step=(stepx,), max_members=5, max_retries_per_step=8, step_min=1e-10,
                                            step_max=1.0, shrink_policy=None, extra_params=seed.correction_options)
            res = seed.generate(opts)
        except Exception as ex:
            ck.violation(f"orbit.generate|state-spelling|raises:{type(ex).__name__}", f"{label}: {ex!r}"[:300], {"case": label})
            continue
        t = cs.trace(label, {"spelling_invariance": -100, "leaves_target": -100, "offset_is_current_step": -90, "other_components_not_stepped": -90},
                     {"family": "lyapunov", "stepper": "natural", "scenario": "state-spelling"})
        params = [float(np.asarray(p).ravel()[0]) for p in res.parameter_values]
        inside = [lo <= p <= hi for p in params]
        cs.obs(t, "leaves_target", 0.0 if (len(params) >= 3 and (not inside[-1] or len(params) == 5)) else 1.0)
        if ref_params is None:
            ref_params = params
        cs.obs(t, "spelling_invariance", 0.0 if (len(params) == len(ref_params) and max(abs(a - b) for a, b in zip(params, ref_params)) < 1e-12) else 1.0)
        cs.obs(t, "offset_is_current_step", max((min(abs((b - a) - stepx / 2 ** k) for k in range(0, 12)) for a, b in zip(params, params[1:])), default=1.0))
        # the natural predictor moves the SELECTED component only: y and z of every member's initial state stay those of the seed (0)
        cs.obs(t, "other_components_not_stepped", max(abs(float(o.initial_state[c])) for o in res.family for c in (SynodicState.Y, SynodicState.Z)))
    if not any(v > 0 for v in ck.cov["parts"].get("family_rejections", {}).values()):
        ck.notes.append("family contracts: no forced-rejection scenario produced a rejection; the shrink path was not exercised end to end")
    cs.decide(key_fn=lambda t, n: f"orbit.generate|{n}")
    cs.selftest()


def main(tier=None, replay=None):
    ck = Check("C13", "model_checking", tier)
    rnd = random.Random(ck.seed)
    if replay:
        data = json.load(open(replay))["data"]
        out = run_script(data["cfg"], data["script"])
        print(json.dumps({"observed": out, "expected": data.get("expected")}, indent=1))
        bad = out["overrun"] or out["error"] or (data.get("expected") and any(
            out.get("final", {}).get(k) != data["expected"][k] for k in ("fam", "acc", "rej", "iters", "fstep")))
        if bad:
            print(f"VIOLATION property=C13 replay={replay}")
            return 1
        return 0

    # 1. model: algorithm => requirement
    r = tlc(ALGO, CFG / ("Continuation.quick.cfg" if ck.quick else "Continuation.thorough.cfg"),
            coverage=ck.quick, timeout=3000)
    ck.model("Continuation." + ck.tier, r, required_actions=("Predict", "Accept", "Reject"))

    # 2. behaviours
    beh = []
    if ck.quick:
        _, b = gen_behaviours(ck, "Continuation.genquick.cfg")
        beh += b
        _, b = gen_behaviours(ck, "Continuation.gensim.cfg", simulate="num=2500", seed=ck.seed, workers=4)
        beh += b
    else:
        _, b = gen_behaviours(ck, "Continuation.gen.cfg", timeout=3000)
        beh += b
        _, b = gen_behaviours(ck, "Continuation.gensim.cfg", simulate="num=40000", seed=ck.seed, workers=8,
                              timeout=3000)
        beh += b
    # distinct behaviours only
    seen = set()
    uniq = []
    for b in beh:
        k = json.dumps([b["cfg"], b["script"]], sort_keys=True)
        if k not in seen:
            seen.add(k)
            uniq.append(b)
    beh = uniq
    ck.part("behaviours", generated=len(beh))

    # 3. spec -> code replay
    traces = []
    mism = []
    for b in beh:
        cfg, script = b["cfg"], (b["script"] if isinstance(b["script"], list) else [])
        out = run_script(cfg, script)
        nontrivial = len(script) >= 2
        ck.count((json.dumps(cfg, sort_keys=True), json.dumps(script)), nontrivial)
        traces.append({"cfg": cfg, "ev": out["events"]})
        exp = {k: b[k] for k in ("fam", "acc", "rej", "iters", "fstep")}
        fin = out.get("final")
        ok = (fin is not None and not out["overrun"] and out["error"] is None
              and all(fin[k] == exp[k] for k in exp) and out["consumed"] == len(script))
        if not ok:
            mism.append((b, out, exp))
        if len(script) >= 5:
            ck.sample({"cfg": cfg, "script": ["%s%+d" % (o["k"], o["d"]) if o["k"] == "acc" else o["k"] for o in script],
                       "observed_final": fin})
    ck.part("replay", replayed=len(beh), mismatches=len(mism))

    # 4. code -> spec trace validation (strict), then loose for the rejected ones
    states, rej = validate_traces(TRACE, CFG / "ContinuationTrace.Strict.cfg", traces, timeout=3000)
    ck.cov["traces_validated_against_impl"] += len(traces)
    ck.part("trace_validation", traces=len(traces), states=states, strict_rejected=len(rej))
    loose_rej = {}
    if rej:
        idx = sorted(rej)
        _, lr = validate_traces(TRACE, CFG / "ContinuationTrace.Loose.cfg", [traces[i] for i in idx], timeout=3000)
        loose_rej = {idx[k]: v for k, v in lr.items()}
        ck.part("trace_validation", loose_rejected=len(loose_rej))

    # verdicts: a violation is reported only when the real run breaks the property's own wording
    reported = 0
    bad_idx = set(loose_rej)
    for (b, out, exp) in mism:
        i = beh.index(b)
        clause = classify(b["cfg"], out)
        if clause == "diverges-from-algorithm" and i not in bad_idx:
            ck.notes.append(f"divergence from the algorithm transcription without a C13 clause failing: cfg={b['cfg']} "
                            f"script={b['script']} observed={out.get('final')} expected={exp}")
            continue
        bad_idx.discard(i)
        if reported < 50:
            ck.violation(f"pc.run|{clause}",
                         f"continuation backend violates C13 ({clause}) for cfg={b['cfg']} "
                         f"script={[o['k'] + (str(o['d']) if o['k']=='acc' else '') for o in b['script']]}: "
                         f"observed {out.get('final')} expected {exp}",
                         {"cfg": b["cfg"], "script": b["script"], "expected": exp, "observed": out})
            reported += 1
    for i in sorted(bad_idx)[:20]:
        b = beh[i]
        out = run_script(b["cfg"], b["script"])
        ck.violation(f"pc.run|{classify(b['cfg'], out)}",
                     f"trace of the real backend rejected by the requirement-level trace spec at event {loose_rej[i][0]}",
                     {"cfg": b["cfg"], "script": b["script"], "observed": out, "rejected_at": loose_rej[i][0]})

    # 5. binding self-test: a corrupted trace must be rejected
    if traces:
        cand = [t for t in traces if len(t["ev"]) >= 4]
        t = json.loads(json.dumps(rnd.choice(cand)))
        for e in t["ev"]:
            if e["e"] == "accept":
                e["newstep"] += 1 if e["newstep"] > 0 else -1
                e["newstep"] *= 2
                break
        else:
            t["ev"][-1]["rej"] += 1
        t2 = json.loads(json.dumps(rnd.choice(cand)))
        del t2["ev"][1]
        _, rj = validate_traces(TRACE, CFG / "ContinuationTrace.Strict.cfg", [t, t2])
        if len(rj) != 2:
            raise MachineryError("binding self-test: corrupted traces were accepted by ContinuationTrace")
        ck.part("selftest", corrupted_traces_rejected=2)

    family_part(ck)
    ck.cov["rule"] = ("behaviours = terminal states of the TLC model (config x corrector outcome script), exhaustive "
                      "for the generation config plus -simulate samples seeded by VERIF_SEED; distinct = distinct "
                      "(config, script); non-trivial = script of >= 2 corrector calls")
    ck.cov["exhaustive"] = True
    ck.assumptions += ["corrector, predictor and parameter getter are scripted collaborators (1-D integer lattice)",
                      "end-to-end families (real interface): closure of every member with its own period under adaptive DOP853, bound 1e-6"]
    return ck.finish()


if __name__ == "__main__":
    sys.exit(main())
