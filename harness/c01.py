"""C01 -- equations of motion, linearisation and energy integral are mutually consistent.

[M] spec/kernels/Field.tla: the code's formulas for the field, the Jacobian and the energy are transcribed
    as rational functions and evaluated on rational witness points with rational distances (in Z_p).
    Independently, dual-number differentiation in the same module gives dF/dx and grad E.  TLC checks
    J = dF/dx (all 36 entries), grad E . F = 0, Jacobi = -2E - mu(1-mu), Laplace identity.
[binding] the Fraction evaluator of the transcription is cross-validated against TLC's residues, then the
    REAL kernels (_crtbp_accel, _jacobian_crtbp, crtbp_energy, dynsys.rhs, jacobian_dynsys.rhs,
    var_dynsys.rhs) are evaluated at the same witness points and compared with the exact rationals.
[M/exact] variational system = (J Phi, F): for monomial dyadic Phi every product is exact, so the 42
    outputs must equal entries of the other two kernels bit for bit.
[T] reported energy / Jacobi constant along trajectories produced by every propagation method, order and
    direction, planar and spatial (Contracts.tla).
"""
from __future__ import annotations

import itertools
import json
import math
import random
import sys
from fractions import Fraction as F

import numpy as np

from common import SPEC, Check, ContractSet, MachineryError, tlc

P0 = 46337


def modp(fr, p=P0):
    fr = F(fr)
    return fr.numerator % p * pow(fr.denominator % p, p - 2, p) % p


def point(w):
    s, t, k = F(w["sn"], w["sd"]), F(w["tn"], w["td"]), F(w["kn"], w["kd"])
    den = 1 + s * s + t * t
    u = ((1 - s * s - t * t) / den, 2 * s / den, 2 * t / den)
    omc2 = 1 - u[0] ** 2
    r1 = u[0] + (omc2 / k - k) / 2
    r2 = (omc2 / k + k) / 2
    mu = F(1, w["mq"])
    return dict(x=r1 * u[0] - mu, y=r1 * u[1], z=r1 * u[2], vx=F(w["v1"]), vy=F(w["v2"]), vz=F(w["v3"]), mu=mu, r1=r1, r2=r2)


def field(P):
    mu, m1 = P["mu"], 1 - P["mu"]
    a, b = P["x"] + mu, P["x"] + mu - 1
    i1, i2 = 1 / P["r1"] ** 3, 1 / P["r2"] ** 3
    ax = 2 * P["vy"] + P["x"] - m1 * a * i1 - mu * b * i2
    ay = -2 * P["vx"] + P["y"] - m1 * P["y"] * i1 - mu * P["y"] * i2
    az = -m1 * P["z"] * i1 - mu * P["z"] * i2
    return [P["vx"], P["vy"], P["vz"], ax, ay, az]


def jac(P):
    mu, m2 = P["mu"], 1 - P["mu"]
    a, b, y, z = P["x"] + mu, P["x"] - m2, P["y"], P["z"]
    r3, r5, R3, R5 = 1 / P["r1"] ** 3, 1 / P["r1"] ** 5, 1 / P["r2"] ** 3, 1 / P["r2"] ** 5
    com = m2 * r3 + mu * R3
    oxx = 1 + 3 * m2 * r5 * a * a + 3 * mu * R5 * b * b - com
    oyy = 1 + 3 * m2 * r5 * y * y + 3 * mu * R5 * y * y - com
    ozz = 3 * m2 * r5 * z * z + 3 * mu * R5 * z * z - com
    mix = m2 * a * r5 + mu * b * R5
    oxy, oxz, oyz = 3 * y * mix, 3 * z * mix, 3 * y * z * (m2 * r5 + mu * R5)
    Z = F(0)
    return [[Z, Z, Z, F(1), Z, Z], [Z, Z, Z, Z, F(1), Z], [Z, Z, Z, Z, Z, F(1)],
            [oxx, oxy, oxz, Z, F(2), Z], [oxy, oyy, oyz, F(-2), Z, Z], [oxz, oyz, ozz, Z, Z, Z]]


def energy(P):
    mu, m1 = P["mu"], 1 - P["mu"]
    kin = F(1, 2) * (P["vx"] ** 2 + P["vy"] ** 2 + P["vz"] ** 2)
    return kin - m1 / P["r1"] - mu / P["r2"] - F(1, 2) * (P["x"] ** 2 + P["y"] ** 2) - F(1, 2) * mu * m1


def kinetic(P):
    return F(1, 2) * (P["vx"] ** 2 + P["vy"] ** 2 + P["vz"] ** 2)


def grav(P):
    mu, m1 = P["mu"], 1 - P["mu"]
    return -m1 / P["r1"] - mu / P["r2"] - F(1, 2) * mu * m1


def ueff(P):
    return -F(1, 2) * (P["x"] ** 2 + P["y"] ** 2) + grav(P)


def omega(P):
    mu, m1 = P["mu"], 1 - P["mu"]
    return F(1, 2) * (P["x"] ** 2 + P["y"] ** 2) + m1 / P["r1"] + mu / P["r2"]


def jacobi_raw(P):
    mu, m1 = P["mu"], 1 - P["mu"]
    return P["x"] ** 2 + P["y"] ** 2 + 2 * (m1 / P["r1"] + mu / P["r2"]) - (P["vx"] ** 2 + P["vy"] ** 2 + P["vz"] ** 2)


def relerr(val, exact):
    e = float(exact)
    return abs(float(val) - e) / max(1.0, abs(e))


def exact_part(ck: Check):
    from hiten.algorithms.common.energy import crtbp_energy, energy_to_jacobi
    import hiten.algorithms.common.energy as energy_mod
    from hiten.algorithms.dynamics.rtbp import (_crtbp_accel, _jacobian_crtbp, _var_equations, jacobian_dynsys,
                                                rtbp_dynsys, variational_dynsys)
    r = tlc(SPEC / "kernels" / "MCField.tla", SPEC / "cfg" / ("Field.quick.cfg" if ck.quick else "Field.thorough.cfg"), timeout=3000)
    ck.model("Field." + ck.tier, r)
    recs = r.printed()
    if len(recs) < 20:
        raise MachineryError("Field model emitted too few witnesses")
    nx = 0
    worst = {"field": 0.0, "jacobian": 0.0, "energy": 0.0, "jacobi": 0.0}
    last_by_mu = {}
    for rec in recs:
        w = rec["w"]
        P = point(w)
        # cross-validate the Fraction evaluator of the transcription against the TLA+ operators
        Fx, Jx, Ex, Cx = field(P), jac(P), energy(P), jacobi_raw(P)
        jsel = [Jx[3][0], Jx[3][1], Jx[3][2], Jx[4][1], Jx[4][2], Jx[5][2]]
        ok = ([modp(v) for v in Fx] == list(rec["F"]) and [modp(v) for v in jsel] == list(rec["J"])
              and modp(Ex) == rec["E"] and modp(Cx) == rec["C"]
              and modp(kinetic(P)) == rec["T"] and modp(grav(P)) == rec["G"] and modp(ueff(P)) == rec["U"] and modp(omega(P)) == rec["Om"]
              and [modp(P[k]) for k in ("x", "y", "z", "mu", "r1", "r2")] == list(rec["pt"]))
        if not ok:
            raise MachineryError(f"Fraction evaluator disagrees with Field.tla on witness {w}")
        nx += 1
        # the real kernels at the witness point (only where the rational 'distances' are genuine distances)
        if not (P["r1"] > F(1, 5) and P["r2"] > F(1, 5)):
            continue
        mu = float(P["mu"])
        st = np.array([float(P[k]) for k in ("x", "y", "z", "vx", "vy", "vz")])
        nontriv = P["y"] != 0 and P["z"] != 0
        ck.count(("field", json.dumps(w, sort_keys=True)), nontriv)
        case = {"w": w, "mu": mu, "state": st.tolist()}
        f_code = np.asarray(_crtbp_accel(st, mu))
        J_code = np.asarray(_jacobian_crtbp(st[0], st[1], st[2], mu))
        E_code = crtbp_energy(st, mu)
        sysF = np.asarray(rtbp_dynsys(mu).rhs(0.0, st))
        sysJ = np.asarray(jacobian_dynsys(mu).rhs(0.0, st)).reshape(6, 6)
        for name, got, exact in ([("_crtbp_accel", f_code[i], Fx[i]) for i in range(6)]
                                 + [("dynsys.rhs", sysF[i], Fx[i]) for i in range(6)]):
            e = relerr(got, exact)
            worst["field"] = max(worst["field"], e)
            if e > 1e-10:
                ck.violation(f"{name}|differs-from-CR3BP-field", f"{name} at witness {w}: component value {got!r} vs exact {float(exact)!r}", case)
        for i, j in itertools.product(range(6), range(6)):
            for name, M in (("_jacobian_crtbp", J_code), ("jacobian_dynsys.rhs", sysJ)):
                e = relerr(M[i, j], Jx[i][j])
                worst["jacobian"] = max(worst["jacobian"], e)
                if e > 1e-10:
                    ck.violation(f"{name}|entry-not-derivative-of-field:{i}{j}",
                                 f"{name}[{i},{j}] = {M[i, j]!r} but d f_{i}/d x_{j} = {float(Jx[i][j])!r} at witness {w}", case)
        e = relerr(E_code, Ex)
        worst["energy"] = max(worst["energy"], e)
        if e > 1e-10:
            spatial = P["z"] != 0
            ck.violation("crtbp_energy|not-a-first-integral" + ("-spatial" if spatial else ""),
                         f"crtbp_energy = {E_code!r} but the conserved energy is {float(Ex)!r} at witness {w} (z = {float(P['z'])})", case)
        e = relerr(energy_to_jacobi(E_code), -2 * Ex)
        worst["jacobi"] = max(worst["jacobi"], e)
        # the documented split of the energy and its helpers (TLC: EnergyDecomposition)
        for name, got, exact in (("kinetic_energy", energy_mod.kinetic_energy(st), kinetic(P)),
                                 ("gravitational_potential", energy_mod.gravitational_potential(st, mu), grav(P)),
                                 ("effective_potential", energy_mod.effective_potential(st, mu), ueff(P)),
                                 ("kinetic_energy+effective_potential", energy_mod.kinetic_energy(st) + energy_mod.effective_potential(st, mu), Ex),
                                 ("primary_distance", energy_mod.primary_distance(st, mu), P["r1"]),
                                 ("secondary_distance", energy_mod.secondary_distance(st, mu), P["r2"]),
                                 ("jacobi_to_energy(energy_to_jacobi)", energy_mod.jacobi_to_energy(energy_to_jacobi(E_code)), Ex)):
            e = relerr(got, exact)
            worst["energy_split"] = max(worst.get("energy_split", 0.0), e)
            ck.count(("energy-api", name, json.dumps(w, sort_keys=True)), nontriv)
            if e > 1e-10:
                spatial = P["z"] != 0
                ck.violation(f"{name}|differs-from-the-first-integral-split" + ("-spatial" if spatial else ""),
                             f"{name} = {float(got)!r} but the exact value is {float(exact)!r} at witness {w} (z = {float(P['z'])})", case)
        # planar witnesses: the 2-D pseudo-potential and the zero-velocity surface (TLC: PseudoPotentialConsistent)
        if P["z"] == 0:
            pairs = [("pseudo_potential_at_point", energy_mod.pseudo_potential_at_point(st[0], st[1], mu), omega(P))]
            Cx_f = float(Cx)
            _old = np.seterr(all="ignore")          # a grid node may sit on a primary
            X, Y, Zg = energy_mod.hill_region(mu, Cx_f, x_range=(st[0], st[0] + 0.25), y_range=(st[1], st[1] + 0.5), n_grid=3)
            pairs += [("hill_region[corner]", Zg[0, 0], omega(P) - Cx / 2), ("hill_region[corner]=v^2/2", Zg[0, 0], kinetic(P))]
            for (iy, ix) in ((0, 2), (2, 0), (1, 1), (2, 2)):      # rows follow y, columns follow x (np.meshgrid default)
                ref = energy_mod.pseudo_potential_at_point(X[iy, ix], Y[iy, ix], mu) - Cx_f / 2
                if np.isfinite(ref) and abs(ref) < 1e6:            # a grid node may sit on a primary
                    pairs.append(("hill_region[grid]", Zg[iy, ix], ref))
                pairs.append(("hill_region[axes]", abs(X[iy, ix] - (st[0] + 0.125 * ix)) + abs(Y[iy, ix] - (st[1] + 0.25 * iy)), F(0)))
            np.seterr(**_old)
            for name, got, exact in pairs:
                e = relerr(got, exact)
                worst["energy_split"] = max(worst.get("energy_split", 0.0), e)
                ck.count(("energy-api", name, json.dumps(w, sort_keys=True)), True)
                if e > 1e-10:
                    ck.violation(f"{name}|differs-from-the-pseudo-potential",
                                 f"{name} = {float(got)!r} but the exact value is {float(exact)!r} at planar witness {w}", case)
        # the Jacobi-drift measure used by the manifold energy filter, between two witnesses of the same mass parameter
        prev = last_by_mu.get(P["mu"])
        if prev is not None:
            Pa, sta, Ca = prev
            got = energy_mod._max_rel_energy_error(np.array([sta, st, sta]), mu)
            exact = abs(Cx - Ca) / abs(Ca) if Ca != 0 else abs(Cx - Ca)
            e = relerr(got, exact)
            worst["energy_split"] = max(worst.get("energy_split", 0.0), e)
            ck.count(("energy-api", "_max_rel_energy_error", json.dumps(w, sort_keys=True)), True)
            if e > 1e-10:
                ck.violation("_max_rel_energy_error|not-the-relative-jacobi-deviation",
                             f"_max_rel_energy_error([a, b, a]) = {got!r}, exact |C_b - C_a| / |C_a| = {float(exact)!r} (witness {w})", case)
        last_by_mu[P["mu"]] = (P, st, Cx)
        if len(ck.cov["samples"]) < 2 and nontriv:
            ck.sample({"witness": w, "state": st.tolist(), "mu": mu, "ax_code": float(f_code[3]), "ax_exact": str(Fx[3]),
                       "J30_code": float(J_code[3, 0]), "J30_exact": str(Jx[3][0])})
        # variational system: monomial dyadic Phi => bit-exact column copies
        vsys = variational_dynsys(mu)
        for phi_id, Phi in phi_family():
            y42 = np.concatenate([Phi.ravel(), st])
            out = np.asarray(vsys.rhs(0.0, y42))
            ck.count(("vareq", json.dumps(w, sort_keys=True), phi_id), nontriv)
            expect = np.concatenate([(sysJ @ Phi).ravel(), sysF])
            # J @ Phi with one non-zero power of two per column is exact; compare bit for bit
            exp2 = np.zeros((6, 6))
            for j in range(6):
                k = int(np.nonzero(Phi[:, j])[0][0])
                exp2[:, j] = sysJ[:, k] * Phi[k, j]
            expect = np.concatenate([exp2.ravel(), sysF])
            # Phi block: bit for bit (same Jacobian kernel, one non-zero product per sum).  State block: the variational
            # kernel re-derives the accelerations with a different but equivalent arrangement (r2**1.5 vs sqrt()**3), so
            # "the same field" is required to 1e-13 relative, not bitwise.
            bad_phi = np.nonzero(out[:36] != expect[:36])[0]
            bad_f = np.nonzero(np.abs(out[36:] - expect[36:]) > 1e-13 * np.maximum(1.0, np.abs(expect[36:])))[0]
            if bad_phi.size or bad_f.size:
                ck.violation("var_dynsys.rhs|not-(J*Phi,F)",
                             f"variational rhs differs from (J Phi, F): Phi-block outputs {bad_phi[:6].tolist()}, state-block outputs "
                             f"{bad_f.tolist()} for Phi={phi_id}, witness {w}", dict(case, phi=phi_id))
                break
    ck.part("exact_binding", witnesses_cross_validated=nx, worst_relative_error=worst)


def phi_family():
    fam = []
    for i in range(6):
        for j in range(6):
            M = np.zeros((6, 6))
            M[i, j] = 1.0
            # complete to a monomial matrix: the other columns use a shifted identity
            for c in range(6):
                if c != j:
                    M[(c + 1 + i) % 6, c] = 2.0 ** ((c % 3) - 1) * (-1) ** c
            fam.append((f"E{i}{j}+shift", M))
    fam.append(("I", np.eye(6)))
    fam.append(("reverse-dyadic", np.fliplr(np.diag([1, -2, 0.5, 4, -0.25, 1.0]))))
    return fam


def trajectory_part(ck: Check, rnd):
    from hiten import System
    from hiten.algorithms.common.energy import crtbp_energy, energy_to_jacobi
    cs = ContractSet(ck, "energy_along_trajectories")
    # several systems alive in one process, two of them built by from_mu (same body names, different mu): every
    # propagation must use the mass parameter of ITS system
    sysd = {"earth-moon": System.from_bodies("earth", "moon"), "mu=0.3": System.from_mu(0.3), "mu=0.04": System.from_mu(0.04)}
    if not ck.quick:
        sysd["sun-jupiter"] = System.from_bodies("sun", "jupiter")
        sysd["mu=0.5"] = System.from_mu(0.5)
    methods = [("fixed", 4), ("fixed", 6), ("fixed", 8), ("adaptive", 5), ("adaptive", 8)]
    methods_of = lambda sname: methods if (sname == "earth-moon" or not ck.quick) else [("fixed", 8), ("adaptive", 8)]
    # initial states well away from both primaries for every mu (near the triangular region, distance ~0.8 to each)
    ics_of = lambda mu: {"planar": [0.55 - mu, 0.7, 0.0, 0.05, -0.1, 0.0], "spatial": [0.55 - mu, 0.7, 0.1, 0.05, -0.1, 0.08]}
    for sname, system in sysd.items():
        ics = ics_of(float(system.mu))
        for (method, order), fwd, (kind, ic) in itertools.product(methods_of(sname), (1, -1), ics.items()):
            label = f"{sname}|{method}{order}|forward={fwd}|{kind}"
            bound = -55 if (method == "fixed" and order == 4) else -75
            t = cs.trace(label, {"energy_drift": bound, "jacobi_plus_2E": -130},
                         {"system": sname, "method": method, "order": order, "forward": fwd, "kind": kind, "ic": ic})
            ck.count(("traj", label), True)
            traj = system.propagate(ic, tf=1.0, steps=400, method=method, order=order, forward=fwd)
            E = np.array([crtbp_energy(s, system.mu) for s in traj.states])
            cs.obs(t, "energy_drift", float(np.max(np.abs(E - E[0]))))
            cs.obs(t, "jacobi_plus_2E", float(np.max(np.abs(np.array([energy_to_jacobi(e) for e in E]) + 2 * E))))
    # "every trajectory follows the field", also over a very short span on a fine output grid: x(t) - x0 = f(x0) t + O(t^2) with the
    # (exactly verified) field of THIS system; an implementation that answers "nearly zero" spans without integrating returns x0
    for sname, system in sysd.items():
        ic = np.array(ics_of(float(system.mu))["spatial"], dtype=float)
        f0 = np.asarray(system.dynsys.rhs(0.0, ic), dtype=float)
        for (method, order), fwd in itertools.product((("adaptive", 8), ("fixed", 8)), (1, -1)):
            tfs = 1e-5
            label = f"{sname}|{method}{order}|forward={fwd}|short-span"
            t = cs.trace(label, {"short_span_follows_field": -15}, {"system": sname, "method": method, "order": order, "forward": fwd, "kind": "short-span"})
            ck.count(("traj-short", label), True)
            traj = system.propagate(ic, tf=tfs, steps=2001, method=method, order=order, forward=fwd)
            xe = np.asarray(traj.states[-1], dtype=float)
            cs.obs(t, "short_span_follows_field", float(np.max(np.abs(xe - ic - fwd * tfs * f0))) / float(np.max(np.abs(tfs * f0))))
    # the energy / Jacobi constant the OBJECTS report are those of the kernel checked exactly above
    for sname, system in sysd.items():
        L = system.get_libration_point(1)
        t = cs.trace(f"{sname}|object-reported-energy", {"orbit_energy_binding": -130, "orbit_jacobi_binding": -130, "point_energy_binding": -130},
                     {"system": sname, "kind": "objects"})
        ck.count(("objects", sname), True)
        for kind, ic in ics_of(float(system.mu)).items():
            orb = L.create_orbit("generic", initial_state=list(ic))
            e_ref = crtbp_energy(np.asarray(ic, dtype=float), system.mu)
            cs.obs(t, "orbit_energy_binding", abs(float(orb.energy) - e_ref))
            cs.obs(t, "orbit_jacobi_binding", abs(float(orb.jacobi) + 2 * e_ref))
        for i in (1, 2, 3, 4, 5):
            P = system.get_libration_point(i)
            st = np.concatenate([np.asarray(P.position, dtype=float), np.zeros(3)])
            cs.obs(t, "point_energy_binding", max(abs(float(P.energy) - crtbp_energy(st, system.mu)),
                                                  abs(float(P.jacobi) + 2 * crtbp_energy(st, system.mu))))
    cs.decide(key_fn=lambda t, n: ("propagate|reported-energy-not-constant-" + t["data"]["kind"]) if n == "energy_drift"
              else "propagate|short-span-does-not-follow-the-field" if n == "short_span_follows_field"
              else f"energy|contract:{n}")
    cs.selftest()


def main(tier=None, replay=None):
    ck = Check("C01", "model_checking", tier)
    rnd = random.Random(ck.seed)
    if replay:
        d = json.load(open(replay))["data"]
        print(json.dumps(d, indent=1, default=str)[:3000])
        print("re-run ./check C01 to re-evaluate (cases are deterministic)")
        return 0
    exact_part(ck)
    trajectory_part(ck, rnd)
    ck.cov["rule"] = ("witness points = TLC-enumerated rational points with rational distances to both primaries "
                      "(stereographic direction x conic parameter x mu x velocity); each is evaluated in the real kernels; "
                      "non-trivial = y != 0 and z != 0; plus 38 monomial dyadic Phi per witness for the variational system; "
                      "plus (system x method x order x direction x planar/spatial) trajectories")
    ck.cov["exhaustive"] = True
    ck.cov["trusted_base"] = ["TLC", "python-fractions (cross-validated against Field.tla residues on every witness)"]
    ck.assumptions += ["identity of rational functions is decided on finitely many generic rational points in three prime fields (Schwartz-Zippel)",
                      "real kernels compared with exact rationals to relative 1e-10 (observed worst recorded in evidence)"]
    return ck.finish()


if __name__ == "__main__":
    sys.exit(main())
