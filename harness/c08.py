"""C08 -- the Lie-series normal form removes the right terms by a canonical transformation.

[M] spec/kernels/LieSeries.tla (on IPoly.tla): homological divisor law, selection predicates, exp(L_G) with
    the code's bracket orientation, coordinate expansions forward/inverse; TLC checks on the operators:
    inverse law, automorphism law, H o Phi = exp(L_G) H (single and multi generator), canonicity to order N,
    forward o inverse = id.  TLC emits exact instances; they are replayed exactly into
    _solve_homological_equation, _select_terms_for_elimination, _select_nonresonant_terms, _zero_q1p1,
    _restrict_poly_to_center_manifold, _apply_poly_transform, _apply_coord_transform, _lie_expansion.
[T] the real pipeline (Contracts.tla): support of the partial / full normal form, and in two-point form
    H_new(z) = H_old(Phi(z)) + O(r^(N+1)), forward o inverse = id + O(r^(N+1)), D Phi^T J D Phi = J + O(r^(N-1)).
"""
from __future__ import annotations

import json
import math
import random
import sys

import numpy as np

from common import SPEC, Check, ContractSet, MachineryError, tlc
import polyutil as pu


def seq_to_dict(seq):
    return {tuple(k): complex(re, im) for k, re, im in (seq or [])}


def dict_to_list(p: dict, N: int):
    """sparse dict -> numba typed list of complex blocks for degrees 0..N"""
    from numba.typed import List
    out = List()
    for d in range(N + 1):
        ks = pu.enum(d)
        arr = np.zeros(len(ks), dtype=np.complex128)
        idx = {tuple(k): i for i, k in enumerate(ks)}
        for k, c in p.items():
            if sum(k) == d:
                arr[idx[k]] = c
        out.append(arr)
    return out


def list_to_dict(lst):
    out = {}
    for d, blk in enumerate(lst):
        a = np.asarray(blk)
        if a.size == 0:
            continue
        ks = pu.enum(d)
        for i in np.nonzero(a)[0]:
            out[tuple(ks[i])] = complex(a[i])
    return out


def same_poly(got: dict, exp: dict, tol=1e-12):
    for k in set(got) | set(exp):
        g, e = got.get(k, 0j), exp.get(k, 0j)
        if abs(g - e) > tol * max(1.0, abs(e)):
            return k, g, e
    return None


def kernel_part(ck: Check):
    from hiten.algorithms.hamiltonian.center._lie import (_apply_coord_transform, _lie_expansion, _select_terms_for_elimination,
                                                         _zero_q1p1)
    from hiten.algorithms.hamiltonian.lie import _apply_poly_transform, _solve_homological_equation
    from hiten.algorithms.hamiltonian.normal._lie import _select_nonresonant_terms
    from hiten.algorithms.hamiltonian.transforms import _restrict_poly_to_center_manifold
    from hiten.algorithms.polynomial.base import _create_encode_dict_from_clmo, _init_index_tables
    from numba.typed import List
    r = tlc(SPEC / "kernels" / "MCLieSeries.tla", SPEC / "cfg" / ("LieSeries.quick.cfg" if ck.quick else "LieSeries.thorough.cfg"),
            timeout=3000, xss="512m")
    ck.model("LieSeries." + ck.tier, r)
    recs = r.printed()
    if not recs:
        raise MachineryError("LieSeries model emitted nothing")
    NT = 8
    psi, clmo = _init_index_tables(NT)
    enc = _create_encode_dict_from_clmo(clmo)
    eta = np.array([1.0, 2j, 3j], dtype=np.complex128)
    n_hom = n_sel = n_exp = n_coord = 0
    for rec in recs:
        job = rec["job"]
        if job == "hom":
            d = rec["deg"]
            ks = pu.enum(d)
            idx = {tuple(k): i for i, k in enumerate(ks)}
            p = np.zeros(len(ks), dtype=np.complex128)
            expect = np.zeros(len(ks), dtype=np.complex128)
            for k, dre, dim in rec["rows"]:
                i = idx[tuple(k)]
                m = complex((i % 7) + 1, (i % 3) - 1)
                div = complex(dre, dim)
                if div != 0:
                    p[i] = div * m
                    expect[i] = -m
                else:
                    p[i] = m            # resonant monomial: the code must skip it
            G = _solve_homological_equation(p, d, eta, clmo)
            ck.count(("hom", d), True, n=len(ks))
            n_hom += len(ks)
            bad = np.nonzero(np.abs(G - expect) > 1e-12)[0]
            if bad.size:
                k = ks[int(bad[0])]
                ck.violation("_solve_homological_equation|wrong-divisor", f"degree {d} monomial {tuple(k)}: got {G[bad[0]]!r}, exact {expect[bad[0]]!r} "
                             f"(eta = (1, 2i, 3i))", {"deg": d, "monomial": list(k)})
        elif job == "sel":
            d = rec["deg"]
            ks = pu.enum(d)
            ones = np.ones(len(ks), dtype=np.complex128) * (1 + 1j)
            sup = lambda a: {tuple(ks[i]) for i in np.nonzero(np.asarray(a))[0]}
            elim, cm, res = ({tuple(k) for k in rec[n]} for n in ("elim", "cm", "res"))
            ck.count(("sel", d), True, n=len(ks))
            n_sel += len(ks)
            got = sup(_select_terms_for_elimination(ones.copy(), d, clmo))
            if got != elim:
                ck.violation("_select_terms_for_elimination|wrong-support", f"degree {d}: differs on {sorted(got ^ elim)[:4]}", {"deg": d})
            om = np.array([math.sqrt(2), -math.sqrt(2), 1j * math.sqrt(3), -1j * math.sqrt(3), 1j * math.sqrt(5), -1j * math.sqrt(5)], dtype=np.complex128)
            got = sup(_select_nonresonant_terms(ones.copy(), d, om, clmo, 1e-14))
            allk = {tuple(k) for k in ks}
            if got != allk - res:
                ck.violation("_select_nonresonant_terms|wrong-support", f"degree {d}: differs on {sorted(got ^ (allk - res))[:4]}", {"deg": d})
            blocks = [np.zeros(len(pu.enum(e)), dtype=np.complex128) for e in range(d)] + [ones.copy()]
            got = sup(_restrict_poly_to_center_manifold(object(), blocks, clmo, 1e-14)[d])
            if got != cm:
                ck.violation("_restrict_poly_to_center_manifold|wrong-support", f"degree {d}: differs on {sorted(got ^ cm)[:4]}", {"deg": d})
            ex = List()
            one = List()
            for b in blocks:
                one.append(b.copy())
            ex.append(one)
            got = sup(_zero_q1p1(ex, clmo, 1e-30)[0][d])
            if got != cm:
                ck.violation("_zero_q1p1|wrong-support", f"degree {d}: differs on {sorted(got ^ cm)[:4]}", {"deg": d})
        elif job == "exp":
            N, degG = rec["N"], rec["degG"]
            psiN, clmoN = _init_index_tables(N)
            encN = _create_encode_dict_from_clmo(clmoN)
            Fd, Gd, out = seq_to_dict(rec["F"]), seq_to_dict(rec["G"]), seq_to_dict(rec["out"])
            Fl, Gl = dict_to_list(Fd, N), dict_to_list(Gd, N)
            ck.count(("exp", json.dumps(rec["F"]), json.dumps(rec["G"]), N), True)
            n_exp += 1
            got = list_to_dict(_apply_poly_transform(Fl, Gl[degG].copy(), degG, N, psiN, clmoN, encN, 1e-30))
            m = same_poly(got, out)
            if m:
                ck.violation("_apply_poly_transform|not-exp(L_G)", f"F={Fd} G={Gd} N={N}: monomial {m[0]} got {m[1]!r} exact {m[2]!r}",
                             {"F": rec["F"], "G": rec["G"], "N": N})
            got = list_to_dict(_apply_coord_transform(Fl, Gl, N, psiN, clmoN, encN, 1e-30))
            m = same_poly(got, out)
            if m:
                ck.violation("_apply_coord_transform|not-exp(L_G)", f"X={Fd} G={Gd} N={N}: monomial {m[0]} got {m[1]!r} exact {m[2]!r}",
                             {"F": rec["F"], "G": rec["G"], "N": N})
            if n_exp == 1:
                ck.sample({"F": {str(k): str(v) for k, v in Fd.items()}, "G": {str(k): str(v) for k, v in Gd.items()}, "N": N,
                           "exp(L_G)F": {str(k): str(v) for k, v in out.items()}})
        elif job == "coord":
            N, inv = rec["N"], bool(rec["inverse"])
            psiN, clmoN = _init_index_tables(N)
            Gs = rec["Gs"]
            Gtot = {}
            for n, seq in (Gs.items() if isinstance(Gs, dict) else enumerate(Gs, start=3)):
                Gtot.update(seq_to_dict(seq))
            Gl = dict_to_list(Gtot, N)
            exps = _lie_expansion(Gl, N, psiN, clmoN, 1e-30, inverse=inv, sign=None, restrict=False)
            out = rec["out"]
            outs = [out[str(i)] for i in range(1, 7)] if isinstance(out, dict) else out
            ck.count(("coord", json.dumps(Gs), N, inv), True)
            n_coord += 1
            for i in range(6):
                m = same_poly(list_to_dict(exps[i]), seq_to_dict(outs[i]))
                if m:
                    ck.violation("_lie_expansion|wrong-coordinate-series" + ("-inverse" if inv else ""),
                                 f"coordinate {i} (inverse={inv}) N={N}: monomial {m[0]} got {m[1]!r} exact {m[2]!r}", {"Gs": Gs, "N": N, "inverse": inv})
                    break
    ck.part("kernels_exact", homological_monomials=n_hom, selection_monomials=n_sel, exp_instances=n_exp, expansion_instances=n_coord)


class _ModesPoint:
    def __init__(self, lam, w1, w2):
        self.linear_modes = (lam, w1, w2)


def driver_part(ck: Check):
    """LieDriver.tla shapes (which homogeneous blocks are zero / only kept terms / contain eliminable terms) turned into
    concrete Hamiltonians and pushed through the real partial and full _lie_transform loops."""
    from hiten.algorithms.hamiltonian.center._lie import _lie_expansion
    from hiten.algorithms.hamiltonian.center._lie import _lie_transform as lie_partial
    from hiten.algorithms.hamiltonian.normal._lie import _lie_transform as lie_full
    from hiten.algorithms.polynomial.base import _init_index_tables
    r = tlc(SPEC / "algo" / "MCLieDriver.tla", SPEC / "cfg" / ("LieDriver.quick.cfg" if ck.quick else "LieDriver.cfg"), timeout=600)
    ck.model("LieDriver", r)
    rb = tlc(SPEC / "algo" / "MCLieDriver.tla", SPEC / "cfg" / ("LieDriver.break.quick.cfg" if ck.quick else "LieDriver.break.cfg"), timeout=600)
    if rb.invariant_violated != "NothingBadSurvives":
        raise MachineryError("LieDriver non-vacuity variant (break instead of continue) was not refuted by TLC")
    shapes = [x["shape"] for x in r.printed() if "shape" in x]
    N = 4 if ck.quick else 5
    if len(shapes) < 3 ** (N - 2):
        raise MachineryError("LieDriver emitted too few shapes")
    psi, clmo = _init_index_tables(N)
    lam, w1, w2 = 2.0, math.sqrt(2.0), math.sqrt(5.0)
    pt = _ModesPoint(lam, w1, w2)
    rng = np.random.default_rng(12345)
    n = 0
    for sh in shapes:
        kinds = sh if isinstance(sh, dict) else {str(i + 3): k for i, k in enumerate(sh)}
        H = {}
        H[(1, 0, 0, 1, 0, 0)] = lam
        H[(0, 1, 0, 0, 1, 0)] = 1j * w1
        H[(0, 0, 1, 0, 0, 1)] = 1j * w2
        for d in range(3, N + 1):
            kind = kinds[str(d)]
            if kind == "zero":
                continue
            for k in pu.enum(d):
                k = tuple(k)
                if kind == "good" and k[0] != k[3]:
                    continue
                if rng.random() < 0.35:
                    H[k] = complex(rng.normal(), rng.normal()) * 0.3
            if kind == "bad" and not any(sum(k) == d and k[0] != k[3] for k in H):
                H[(d, 0, 0, 0, 0, 0)] = 0.25
            if kind == "good" and not any(sum(k) == d for k in H):
                H[(1, d - 2, 0, 1, 0, 0)] = 0.5
        Hl = dict_to_list(H, N)
        ck.count(("lie-driver", json.dumps(kinds, sort_keys=True)), "bad" in kinds.values())
        n += 1
        for name, fn, survive in (("partial", lie_partial, lambda k: k[0] == k[3]),
                                  ("full", lie_full, lambda k: k[0] == k[3] and k[1] == k[4] and k[2] == k[5])):
            trans, G, elim = fn(pt, [np.asarray(b).copy() for b in Hl], psi, clmo, N)
            got = list_to_dict(trans)
            big = max(abs(v) for v in got.values())
            worst = max([abs(v) / big for k, v in got.items() if sum(k) >= 3 and not survive(k)] + [0.0])
            if worst > 1e-10:
                ck.violation(f"_lie_transform|{name}|eliminable-terms-survive",
                             f"{name} normalisation of a Hamiltonian with block shape {kinds}: a monomial that must be eliminated survives "
                             f"with relative size {worst:.2e}", {"shape": kinds, "form": name})
                continue
            if name == "partial":
                # H_new = H_old o Phi with the library's own coordinate change, two-point form
                from numba.typed import List as _NL
                Gl = _NL()
                for b in G:
                    Gl.append(np.asarray(b, dtype=np.complex128))
                fwd = _lie_expansion(Gl, N, psi, clmo, 1e-30, inverse=False, sign=None, restrict=False)
                d0 = rng.normal(size=6) + 1j * rng.normal(size=6)
                d0 /= np.linalg.norm(d0)
                defs = []
                newl = _NL()
                for b in trans:
                    newl.append(np.asarray(b, dtype=np.complex128))
                for r_ in (0.01, 0.02, 0.04):
                    z = r_ * d0
                    Pz = np.array([eval_list(fwd[i], z, clmo) for i in range(6)])
                    defs.append(abs(eval_list(newl, z, clmo) - eval_list(Hl, Pz, clmo)))
                ex = 0.0
                for a, b in zip(defs, defs[1:]):
                    if a > 1e-12:
                        ex = max(ex, max(0.0, (N + 1 - 2.0) - math.log2(b / a)))
                if ex > 0:
                    ck.violation("_lie_transform|partial|not-composition-with-own-coordinate-change",
                                 f"shape {kinds}: |H_new(z) - H_old(Phi(z))| = {defs} does not scale like r^{N + 1}", {"shape": kinds})
    ck.part("lie_driver", shapes=len(shapes), runs=n)


def eval_list(polys, z, clmo):
    from hiten.algorithms.polynomial.operations import _polynomial_evaluate
    return _polynomial_evaluate(polys, np.asarray(z, dtype=np.complex128), clmo)


def pipeline_part(ck: Check, rnd):
    from hiten import System
    from hiten.algorithms.hamiltonian.center._lie import _lie_expansion
    from hiten.algorithms.polynomial.base import _create_encode_dict_from_clmo, _init_index_tables
    from hiten.algorithms.polynomial.operations import _polynomial_jacobian
    import numba
    numba.set_num_threads(min(4, numba.get_num_threads()))
    cs = ContractSet(ck, "normal_form_pipeline")
    cases = [("earth-moon", 1, 4)] if ck.quick else [("earth-moon", 1, 6), ("earth-moon", 2, 6), ("sun-earth", 1, 5), ("mu=0.05", 2, 5)]
    rng = np.random.default_rng(ck.seed + 11)
    Jc = np.block([[np.zeros((3, 3)), np.eye(3)], [-np.eye(3), np.zeros((3, 3))]])
    for sname, li, N in cases:
        system = System.from_bodies(*sname.split("-")) if "-" in sname else System.from_mu(float(sname[3:]))
        L = system.get_libration_point(li)
        psi, clmo = _init_index_tables(N)
        enc = _create_encode_dict_from_clmo(clmo)
        H_old = L.hamiltonian(N, "complex_modal").poly_H
        H_old_copy = [np.asarray(b).copy() for b in H_old]
        H_new = L.hamiltonian(N, "complex_partial_normal").poly_H
        # L.generating_functions(N) returns one object per degree block of the partial generator (name L<i>_G<deg>_<N>)
        from numba.typed import List as _NList
        gfl = sorted(L.generating_functions(N), key=lambda g: int(g.name.split("_G")[1].split("_")[0]))
        if len(gfl) != N + 1:
            raise MachineryError(f"expected {N + 1} generating-function blocks, got {[g.name for g in gfl]}")
        Gp = _NList()
        for g in gfl:
            Gp.append(np.asarray(g.poly_G[0], dtype=np.complex128).copy())
        label = f"{sname}|L{li}|N={N}"
        t = cs.trace(label + "|partial", {"support_partial": -100, "composition_law_excess": -100, "inverse_law_excess": -100,
                                          "canonical_law_excess": -100, "composition_small": -70},
                     {"system": sname, "L": li, "N": N, "form": "partial"})
        ck.count(("pipeline", label), True)
        # support: no monomial of degree 3..N with k0 != k3
        big = max(float(np.max(np.abs(b))) for b in H_new if np.asarray(b).size)
        worst = 0.0
        for d in range(3, N + 1):
            ks = pu.enum(d)
            a = np.asarray(H_new[d])
            for i in np.nonzero(a)[0]:
                if ks[i][0] != ks[i][3]:
                    worst = max(worst, abs(a[i]) / big)
        cs.obs(t, "support_partial", worst)
        fwd = _lie_expansion(Gp, N, psi, clmo, 1e-30, inverse=False, sign=None, restrict=False)
        inv = _lie_expansion(Gp, N, psi, clmo, 1e-30, inverse=True, sign=None, restrict=False)
        jac = [_polynomial_jacobian(fwd[i], N, psi, clmo, enc) for i in range(6)]
        d0 = rng.normal(size=6) + 1j * rng.normal(size=6)
        d0 /= np.linalg.norm(d0)
        comp, invd, can = [], [], []
        for r in (0.01, 0.02, 0.04, 0.08):
            z = r * d0
            Pz = np.array([eval_list(fwd[i], z, clmo) for i in range(6)])
            comp.append(abs(eval_list(H_new, z, clmo) - eval_list(H_old, Pz, clmo)))
            back = np.array([eval_list(inv[i], Pz, clmo) for i in range(6)])
            invd.append(float(np.max(np.abs(back - z))))
            D = np.array([[eval_list(jac[i][j], z, clmo) for j in range(6)] for i in range(6)])
            can.append(float(np.max(np.abs(D.T @ Jc @ D - Jc))))
        cs.obs(t, "composition_small", comp[0])

        def excess(seq, expo):
            ex = 0.0
            for a, b in zip(seq, seq[1:]):
                if a > 1e-12:
                    ex = max(ex, max(0.0, (expo - 2.0) - math.log2(b / a)))   # one-sided: decaying faster than the law is fine
            return ex
        cs.obs(t, "composition_law_excess", excess(comp, N + 1))
        cs.obs(t, "inverse_law_excess", excess(invd, N + 1))
        cs.obs(t, "canonical_law_excess", excess(can, N))
        # a generator list with an EMPTY block below a populated one (G3 = 0, as for a Hamiltonian without odd part, e.g. mu = 1/2 at
        # L1): forward and inverse expansions still compose to the identity and the forward one is still canonical
        Gz = _NList()
        for dgr, blk in enumerate(Gp):
            Gz.append(np.zeros_like(blk) if dgr == 3 else np.asarray(blk).copy())
        fwdz = _lie_expansion(Gz, N, psi, clmo, 1e-30, inverse=False, sign=None, restrict=False)
        invz = _lie_expansion(Gz, N, psi, clmo, 1e-30, inverse=True, sign=None, restrict=False)
        invz_d, moved = [], 0.0
        for r in (0.01, 0.02, 0.04, 0.08):
            z = r * d0
            Pz = np.array([eval_list(fwdz[i], z, clmo) for i in range(6)])
            moved = max(moved, float(np.max(np.abs(Pz - z))) / r ** 3)
            invz_d.append(float(np.max(np.abs(np.array([eval_list(invz[i], Pz, clmo) for i in range(6)]) - z))))
        tz = cs.trace(label + "|empty-G3", {"inverse_law_excess": -100, "forward_is_not_identity": -100},
                      {"system": sname, "L": li, "N": N, "form": "partial-empty-generator-block"})
        cs.obs(tz, "inverse_law_excess", excess(invz_d, N + 1))
        cs.obs(tz, "forward_is_not_identity", 0.0 if moved > 1e-6 else 1.0)       # exp(L_G4) moves z at third order
        ck.sample({"case": label, "composition_defects": comp, "inverse_defects": invd, "canonicity_defects": can})
        # full normal form: only resonant monomials survive
        try:
            H_full = L.hamiltonian(N, "complex_full_normal").poly_H
        except Exception as ex:
            ck.violation("pipeline|complex_full_normal-raises", f"{label}: {ex!r}"[:300], {"system": sname, "L": li, "N": N})
            continue
        # history: requesting the full normal form must not disturb what the pipeline serves for the other forms
        H_old_again = L.hamiltonian(N, "complex_modal").poly_H
        drift = max(float(np.max(np.abs(np.asarray(a) - np.asarray(b)))) if np.asarray(a).size else 0.0 for a, b in zip(H_old_again, H_old_copy))
        t3 = cs.trace(label + "|after-full", {"cached_modal_unchanged": -130, "composition_law_excess": -100},
                      {"system": sname, "L": li, "N": N, "form": "partial-after-full"})
        cs.obs(t3, "cached_modal_unchanged", drift)
        comp2 = []
        for r in (0.01, 0.02, 0.04, 0.08):
            z = r * d0
            Pz = np.array([eval_list(fwd[i], z, clmo) for i in range(6)])
            comp2.append(abs(eval_list(L.hamiltonian(N, "complex_partial_normal").poly_H, z, clmo) - eval_list(H_old_again, Pz, clmo)))
        cs.obs(t3, "composition_law_excess", excess(comp2, N + 1))
        # history on ONE pipeline, as the centre-manifold service uses it: the inverse expansions are asked for FIRST (to_cm),
        # then the forward ones (to_synodic); then the full normal form is requested and everything is fetched again.  What the
        # pipeline serves for the partial normal form must not depend on that order nor on the detour.
        if sname == cases[0][0] and li == cases[0][1]:
            from hiten.algorithms.hamiltonian.pipeline import HamiltonianPipeline
            pipe = HamiltonianPipeline(L, N)
            Hm = [np.asarray(b).copy() for b in pipe.get_hamiltonian("complex_modal").poly_H]
            Hp = [np.asarray(b).copy() for b in pipe.get_hamiltonian("complex_partial_normal").poly_H]
            snap = lambda: [np.asarray(b).copy() for b in pipe.get_generating_functions("partial").poly_G]
            G0 = snap()
            inv1 = pipe.get_lie_expansions(inverse=True)
            G1 = snap()
            fwd1 = pipe.get_lie_expansions(inverse=False)
            fwd1c = [[np.asarray(b).copy() for b in fwd1[i]] for i in range(6)]
            th = cs.trace(label + "|served-history", {"generators_unchanged_by_expansion": -130, "composition_law_excess": -100,
                                                      "inverse_law_excess": -100, "generators_unchanged_by_full": -130,
                                                      "expansions_unchanged_by_full": -130},
                          {"system": sname, "L": li, "N": N, "form": "partial-served-history"})
            ck.count(("pipeline-history", label), True)
            dmax = lambda A, B: max((float(np.max(np.abs(np.asarray(a) - np.asarray(b)))) if np.asarray(a).size else 0.0) for a, b in zip(A, B))
            cs.obs(th, "generators_unchanged_by_expansion", dmax(G0, G1))
            comp3, inv3 = [], []
            for r in (0.01, 0.02, 0.04, 0.08):
                z = r * d0
                Pz = np.array([eval_list(fwd1[i], z, clmo) for i in range(6)])
                comp3.append(abs(eval_list(Hp, z, clmo) - eval_list(Hm, Pz, clmo)))
                inv3.append(float(np.max(np.abs(np.array([eval_list(inv1[i], Pz, clmo) for i in range(6)]) - z))))
            cs.obs(th, "composition_law_excess", excess(comp3, N + 1))
            cs.obs(th, "inverse_law_excess", excess(inv3, N + 1))
            pipe.get_hamiltonian("complex_full_normal")
            cs.obs(th, "generators_unchanged_by_full", dmax(G0, snap()))
            fwd2 = pipe.get_lie_expansions(inverse=False)
            cs.obs(th, "expansions_unchanged_by_full", max(dmax(fwd1c[i], fwd2[i]) for i in range(6)))
        t2 = cs.trace(label + "|full", {"support_full": -100}, {"system": sname, "L": li, "N": N, "form": "full"})
        bigf = max(float(np.max(np.abs(b))) for b in H_full if np.asarray(b).size)
        worst = 0.0
        for d in range(3, N + 1):
            ks = pu.enum(d)
            a = np.asarray(H_full[d])
            for i in np.nonzero(a)[0]:
                k = ks[i]
                if not (k[0] == k[3] and k[1] == k[4] and k[2] == k[5]):
                    worst = max(worst, abs(a[i]) / bigf)
        cs.obs(t2, "support_full", worst)
    cs.decide(key_fn=lambda t, n: f"normal-form|{t['data']['form']}|{n}")
    cs.selftest()


def main(tier=None, replay=None):
    ck = Check("C08", "model_checking", tier)
    rnd = random.Random(ck.seed)
    if replay:
        d = json.load(open(replay))["data"]
        print(json.dumps(d, indent=1, default=str)[:3000])
        print("re-run ./check C08 to re-evaluate (cases are deterministic)")
        return 0
    kernel_part(ck)
    driver_part(ck)
    pipeline_part(ck, rnd)
    ck.cov["rule"] = ("kernel instances emitted by TLC: every monomial of degree 3..MaxHomDeg (homological), every monomial up to SelDeg "
                      "(selection predicates), (F, G, N) Lie-series instances and multi-generator coordinate expansions; pipeline cases = "
                      "(system, point, degree) with four amplitudes each")
    ck.assumptions += ["exact instances use generators divisible by 6 and N = 4 so that every series term is integral",
                      "value-level laws of the floating-point pipeline are checked in two-point form (ratio within a factor 4, above the 1e-12 floor)",
                      "full normal form: frequencies assumed rationally independent (resonant <=> exponents balance pairwise)"]
    return ck.finish()


if __name__ == "__main__":
    sys.exit(main())
