"""C09 -- centre-manifold points map to synodic states consistently in position and energy.

The discrete links of the chain are decided elsewhere (slot placement and lifting C14, complexification and
modal maps C18, local<->synodic C07, Lie expansions C08).  What C09 adds is the property's own statement as
mutual-consistency contracts between library components, in the finite two-point form of DESIGN section 1:

[T] Contracts.tla over TLC-enumerated configurations (spec/objects/CMConfigs.tla: point x degree x direction
    class x section coordinate): along a CM direction d, at amplitudes r, 2r, 4r, 8r,
      round_trip   | to_cm(to_synodic(p)) - p |                     ~ r^(N+1)
      energy       | (E(to_synodic(p)) - E_L)/gamma^2 - H_cm(p) |   ~ r^(N+1)
    and for 2-D section points at energies h0, 4 h0 (r = sqrt(h0) doubles):
      on_section   | section coordinate of to_cm(state) |           ~ r^(N+1)
      on_level     | (E(state) - E_L)/gamma^2 - h0 |                ~ r^(N+1)
      lift_level   | H_cm(lifted 4-D point) - h0 |                  <= solver tolerance
"""
from __future__ import annotations

import json
import math
import random
import sys

import numpy as np

from common import SPEC, Check, ContractSet, MachineryError, tlc

SLOT = {"q2": 0, "p2": 1, "q3": 2, "p3": 3}


def excess(seq, expo, floor=1e-12):
    """How far the successive-doubling ratios fall BELOW the law r^expo (in powers of two, beyond a factor 4 of slack).
    'Vanish like r^(N+1)' is a lower bound on the decay: a defect that decays faster (leading term absent by symmetry)
    satisfies it, so only ratios smaller than 2^(expo-2) count.  Ratios whose smaller member is below the rounding floor
    are not evaluated."""
    # "vanishes like r^(N+1)" is a statement about r -> 0: the decisive pair is the one with the SMALLEST radii that is still
    # above the rounding floor.  Pairs at larger radii are outside the asymptotic regime (Sun-Earth L1, section lift at
    # h0 = 0.16: the defect changes sign near r = 0.4 and is accidentally small there; thorough tier, false alarm removed).
    for a, b in zip(seq, seq[1:]):
        if a > floor and b > floor:
            return max(0.0, (expo - 2.0) - math.log2(b / a))
    return 0.0


def hcm(cm, poly, clmo, p4):
    from hiten.algorithms.polynomial.operations import _polynomial_evaluate
    z = np.zeros(6, dtype=np.complex128)
    z[1], z[4], z[2], z[5] = p4[0], p4[1], p4[2], p4[3]
    return float(np.real(_polynomial_evaluate(poly, z, clmo)))


def main(tier=None, replay=None):
    ck = Check("C09", "exploration", tier)
    rnd = random.Random(ck.seed)
    from hiten import System
    from hiten.algorithms.common.energy import crtbp_energy
    from hiten.algorithms.polynomial.base import _init_index_tables
    import numba
    numba.set_num_threads(min(2, numba.get_num_threads()))     # many tiny parallel kernels: thread wake-ups dominate otherwise
    if replay:
        d = json.load(open(replay))["data"]
        print(json.dumps(d, indent=1, default=str)[:3000])
        print("re-run ./check C09 to re-evaluate (cases are deterministic)")
        return 0
    r = tlc(SPEC / "objects" / "MCCMConfigs.tla", SPEC / "cfg" / ("CMConfigs.quick.cfg" if ck.quick else "CMConfigs.thorough.cfg"), timeout=600)
    ck.model("CMConfigs." + ck.tier, r)
    cfgs = r.printed()
    if len(cfgs) < 6:
        raise MachineryError("CMConfigs emitted too few configurations")
    cs = ContractSet(ck, "cm_synodic_contracts")
    dirs = {"planar": np.array([1.0, 0.6, 0.0, 0.0]), "vertical": np.array([0.0, 0.0, 0.8, -0.7]),
            "mixed": np.array([0.7, -0.4, 0.5, 0.6]), "mixed2": np.array([-0.3, 0.8, -0.6, 0.2])}
    cms = {}
    if not ck.quick:
        # upper edge of the mass-ratio range: equal masses at L1, where the odd-degree part of the Hamiltonian (and with it the odd
        # generator blocks) vanishes identically; degree 6 is the lowest at which the centre coordinates feel the difference
        cfgs = list(cfgs) + [{"system": "mu=0.5", "point": 1, "degree": 6, "kind": "direction", "what": w} for w in ("mixed", "planar")]
    for c in sorted(cfgs, key=lambda c: json.dumps(c, sort_keys=True)):
        key = (c["system"], c["point"], c["degree"])
        if key not in cms:
            system = System.from_mu(float(c["system"][3:])) if c["system"].startswith("mu=") else System.from_bodies(*c["system"].split("-"))
            L = system.get_libration_point(c["point"])
            cm = L.get_center_manifold(degree=c["degree"])
            ham = cm.compute("center_manifold_real")
            psi, clmo = _init_index_tables(c["degree"])
            st0 = np.concatenate([np.asarray(L.position, dtype=float), np.zeros(3)])
            cms[key] = (system, L, cm, ham.poly_H, clmo, crtbp_energy(st0, system.mu), float(L.dynamics.gamma))
        system, L, cm, polyH, clmo, EL, g = cms[key]
        mu, N = float(system.mu), c["degree"]
        label = "|".join(f"{k}={c[k]}" for k in ("system", "point", "degree", "kind", "what"))
        if c["kind"] == "direction":
            d = dirs[c["what"]] / np.linalg.norm(dirs[c["what"]])
            t = cs.trace(label, {"round_trip_law_excess": -100, "energy_law_excess": -100, "round_trip_small": -85, "energy_small": -80}, c)
            ck.count(("cm-dir", label), True)
            rt, en = [], []
            for r_ in ((0.02, 0.04, 0.08) if ck.quick else (0.02, 0.04, 0.08, 0.16)):
                p = r_ * d
                s = np.asarray(cm.to_synodic(p), dtype=float)
                back = np.asarray(cm.to_cm(s), dtype=float)
                rt.append(float(np.max(np.abs(back - p))))
                en.append(abs((crtbp_energy(s, mu) - EL) / g ** 2 - hcm(cm, polyH, clmo, p)))
            cs.obs(t, "round_trip_small", rt[0])
            cs.obs(t, "energy_small", en[0])
            efloor = 1e3 * 2.2e-16 * max(1.0, abs(EL)) / g ** 2     # rounding of (E - E_L) / gamma^2
            cs.obs(t, "round_trip_law_excess", excess(rt, N + 1))
            cs.obs(t, "energy_law_excess", excess(en, N + 1, floor=max(1e-12, efloor)))
            t["data"] = dict(c, round_trip_defects=rt, energy_defects=en)
            if len(ck.cov["samples"]) < 3:
                ck.sample({"case": label, "round_trip_defects": rt, "energy_defects": en})
        else:
            sc = c["what"]
            t = cs.trace(label, {"on_section_law_excess": -100, "on_level_law_excess": -100, "lift_level": -90, "on_section_small": -60,
                                 "on_level_small": -50}, c)
            ck.count(("cm-section", label), True)
            sec, lev = [], []
            for h0 in (0.0025, 0.01, 0.04):        # r = sqrt(h0) = 0.05, 0.1, 0.2 (r = 0.4 is outside the asymptotic regime)
                rr = math.sqrt(h0)
                pt = (0.15 * rr, -0.1 * rr)
                s = np.asarray(cm.to_synodic(np.array(pt), energy=h0, section_coord=sc), dtype=float)
                p4 = np.asarray(cm.poincare_map(h0).dynamics._to_real_4d_cm(np.array(pt), sc), dtype=float)
                cs.obs(t, "lift_level", abs(hcm(cm, polyH, clmo, p4) - h0))
                back = np.asarray(cm.to_cm(s), dtype=float)
                sec.append(abs(back[SLOT[sc]]))
                lev.append(abs((crtbp_energy(s, mu) - EL) / g ** 2 - h0))
            cs.obs(t, "on_section_small", sec[0])
            cs.obs(t, "on_level_small", lev[0])
            efloor = 1e3 * 2.2e-16 * max(1.0, abs(EL)) / g ** 2
            cs.obs(t, "on_section_law_excess", excess(sec, N + 1))
            cs.obs(t, "on_level_law_excess", excess(lev, N + 1, floor=max(1e-12, efloor)))
            t["data"] = dict(c, section_defects=sec, level_defects=lev)
            if len(ck.cov["samples"]) < 5:
                ck.sample({"case": label, "section_defects": sec, "level_defects": lev})
    # history: one CenterManifold object whose degree is raised after it has already converted points must behave like a
    # freshly built centre manifold of the new degree
    for key, (system, L, cm, polyH, clmo, EL, g) in list(cms.items()):
        if key[2] != 4:
            continue
        from hiten.system.center import CenterManifold
        hist = CenterManifold(L, 3)
        p = 0.05 * np.array([0.6, -0.3, 0.5, 0.4])
        s3 = np.asarray(hist.to_synodic(p), dtype=float)
        back3 = np.asarray(hist.to_cm(s3), dtype=float)
        hist.degree = 4
        s4 = np.asarray(hist.to_synodic(p), dtype=float)
        b4 = np.asarray(hist.to_cm(s4), dtype=float)
        fresh_s = np.asarray(cm.to_synodic(p), dtype=float)
        fresh_b = np.asarray(cm.to_cm(fresh_s), dtype=float)
        t = cs.trace(f"{key[0]}|L{key[1]}|history degree 3 -> 4", {"history_matches_fresh": -120}, {"kind": "history", "system": key[0], "point": key[1]})
        ck.count(("cm-history", key[0], key[1]), True)
        cs.obs(t, "history_matches_fresh", max(float(np.max(np.abs(s4 - fresh_s))), float(np.max(np.abs(b4 - fresh_b)))))
        # second history: the FULL normal form is requested through the same object (an alternative form that shares the
        # pipeline of this point and degree), then points are converted again
        try:
            hist.compute("real_full_normal")
        except Exception as ex:  # noqa
            ck.notes.append(f"history: compute('real_full_normal') raised {type(ex).__name__} (detour skipped)")
            continue
        s5 = np.asarray(hist.to_synodic(p), dtype=float)
        b5 = np.asarray(hist.to_cm(s5), dtype=float)
        t = cs.trace(f"{key[0]}|L{key[1]}|history full normal form detour", {"history_matches_fresh": -120},
                     {"kind": "history", "system": key[0], "point": key[1]})
        ck.count(("cm-history-full", key[0], key[1]), True)
        cs.obs(t, "history_matches_fresh", max(float(np.max(np.abs(s5 - fresh_s))), float(np.max(np.abs(b5 - fresh_b)))))
    cs.decide(key_fn=lambda t, n: f"center-manifold|{t['data']['kind']}|{n}")
    cs.selftest()
    ck.cov["rule"] = ("configurations enumerated by TLC from CMConfigs.tla (system x point x degree x {CM direction class | section "
                      "coordinate}); one contract trace per configuration with 3-4 amplitudes")
    ck.assumptions += ["the r^(N+1) law is checked in two-point form (ratio within a factor 4 of 2^(N+1), above the 1e-12 floor), not over the whole "
                      "domain of convergence", "L3 and triangular centre manifolds raise NotImplementedError in the library and are outside the family"]
    return ck.finish()


if __name__ == "__main__":
    sys.exit(main())
