"""Binding technique B2: run the Python source of a numba driver (`.py_func`) while names it
resolves from its module globals are temporarily replaced by recorders or scripted stand-ins.

Every `@njit` function of hiten keeps its source as `.py_func`; that source looks helper names up
in the *module* dict at call time, so `module.helper = replacement` instruments (or scripts) the
driver exactly as it is written in the working tree, with no hook in the repository.

Typical use::

    from pyfunc import py_func, patched, Recorder
    import hiten.algorithms.integrators.rk as rk

    log = []
    with patched(rk, _event_crossed=Recorder("crossed", rk._event_crossed, log)):
        out = py_func(rk._RK45._integrate_rk45_until_event)(f=..., y0=..., ...)

Rules (the helper enforces the first two, the caller owns the third):

1. A patched name must already exist in the module (guards against typos that would silently
   leave the real helper in place).
2. Globals are restored on exit, also when the driver raises; nesting is allowed.
3. While a name is patched with a *Python* callable, do not trigger the first compilation of a
   dispatcher that references that name: numba binds globals at compile time and would either
   fail to type the closure or bake it in.  Patch only what the `.py_func` itself calls, or make
   sure the compiled callee was compiled before (call it once un-patched).

A B2 observation is about the driver *source*; pair it with a compiled run on the same inputs
(`same_bits`) when the driver can be run compiled.
"""
from __future__ import annotations

import contextlib
import types

import numpy as np

from common import MachineryError

_MISSING = object()


def py_func(fn):
    """Pure-Python function behind an `@njit` dispatcher (plain, or stored as a staticmethod)."""
    f = getattr(fn, "__func__", fn)
    pf = getattr(f, "py_func", None)
    if pf is None:
        if isinstance(f, types.FunctionType):
            return f            # already plain Python (e.g. jit disabled for this function)
        raise MachineryError(f"{fn!r} has no .py_func (not a numba dispatcher)")
    return pf


def module_of(fn):
    """Module object whose dict the driver's source resolves its globals from."""
    import sys
    pf = py_func(fn)
    mod = sys.modules.get(pf.__module__)
    if mod is None or pf.__globals__ is not mod.__dict__:
        raise MachineryError(f"globals of {pf.__qualname__} are not the dict of module {pf.__module__}")
    return mod


@contextlib.contextmanager
def patched(module, **replacements):
    """Temporarily rebind `module.<name>` for every keyword; always restores."""
    saved = {}
    try:
        for name, new in replacements.items():
            old = module.__dict__.get(name, _MISSING)
            if old is _MISSING:
                raise MachineryError(f"cannot patch {module.__name__}.{name}: no such global")
            saved[name] = old
            setattr(module, name, new)
        yield saved
    finally:
        for name, old in saved.items():
            setattr(module, name, old)


def run_py_func(fn, patches: dict, *args, module=None, **kwargs):
    """`fn.py_func(*args, **kwargs)` with `patches` applied to the driver's own module
    (or to `module` when the names live elsewhere)."""
    mod = module if module is not None else module_of(fn)
    with patched(mod, **patches):
        return py_func(fn)(*args, **kwargs)


class Recorder:
    """Callable that forwards to `real` and appends `(name, args, result)` to `log`.
    `project(args, result)` may reduce the entry to what the trace needs (e.g. signs)."""

    def __init__(self, name, real, log: list, project=None):
        self.name, self.real, self.log, self.project = name, real, log, project

    def __call__(self, *args, **kwargs):
        res = self.real(*args, **kwargs)
        self.log.append((self.name, self.project(args, res)) if self.project else (self.name, args, res))
        return res


def same_bits(a, b) -> bool:
    """Bit-for-bit equality of two (nested tuples of) scalars/arrays; NaNs equal themselves."""
    if isinstance(a, (tuple, list)) and isinstance(b, (tuple, list)):
        return len(a) == len(b) and all(same_bits(x, y) for x, y in zip(a, b))
    xa, xb = np.asarray(a), np.asarray(b)
    if xa.shape != xb.shape:
        return False
    if xa.dtype.kind == "f" or xb.dtype.kind == "f":
        return bool(np.array_equal(xa.astype(np.float64).view(np.int64), xb.astype(np.float64).view(np.int64)))
    return bool(np.array_equal(xa, xb))
