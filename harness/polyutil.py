"""Shared helper: sparse exact polynomials  <->  hiten packed coefficient arrays.

A *sparse polynomial* here is a dict  {exponent 6-tuple of ints: (re, im)}  with
integer (Gaussian-integer) coefficients and no zero entries -- the Python image
of an `IPoly` value of spec/lib/IPoly.tla.  TLC prints an IPoly as a JSON list
of  [[k1..k6], re, im]  triples (operator PolyToSeq); `from_tlc` parses that.

Positions inside hiten's packed arrays are computed by `rank()`, a transcription
of `Rank` in spec/lib/PolyIndex.tla (closed form via binomials), NOT by hiten's
own `_encode_multiindex`: check C06 validates `rank` against TLC and validates
hiten's psi/clmo/encode tables against `rank`, so every other check may place
and read coefficients without trusting the library's encoder.

Nothing here caches anything derived from hiten on disk; the only memoisation is
the per-process enumeration of exponent tuples (pure Python, independent of hiten).

Functions
---------
binom, psi_count(n, d)          number of monomials
pack(k), unpack(packed, d)      6-bit field packing of k[1..5] (PolyIndex.Pack/Unpack)
rank(k)                         position of k among the degree-|k| monomials
enum(d)                         list of all exponent tuples of degree d in table order
from_tlc(obj) / to_tlc(p)       JSON <-> sparse dict
hom_part(p, d), degree(p), is_real(p)
to_block(p, d, dtype)           homogeneous part of degree d  -> 1-D coefficient array
from_block(arr, d)              1-D coefficient array -> sparse dict (exact integers required)
to_list(p, max_deg)             -> numba typed List of complex128 blocks, degrees 0..max_deg
from_list(lst)                  typed List / sequence of blocks -> sparse dict
exact_int(x), exact_gauss(z)    float/complex -> exact integers or ValueError
"""
from __future__ import annotations

from functools import lru_cache
from math import comb

import numpy as np

N_VARS = 6


# --------------------------------------------------------------------------
# index arithmetic (transcription of spec/lib/PolyIndex.tla)
# --------------------------------------------------------------------------

def binom(n: int, k: int) -> int:
    if k < 0 or n < 0 or k > n:
        return 0
    return comb(n, k)


def psi_count(n: int, d: int) -> int:
    """Number of monomials of degree exactly d in n variables (PolyIndex.Psi)."""
    if n == 0:
        return 1 if d == 0 else 0
    return binom(d + n - 1, n - 1)


def pack(k) -> int:
    """PolyIndex.Pack: k[1..5] in 6-bit fields, k[0] implicit."""
    return (k[1] & 0x3F) | ((k[2] & 0x3F) << 6) | ((k[3] & 0x3F) << 12) | ((k[4] & 0x3F) << 18) | ((k[5] & 0x3F) << 24)


def unpack(packed: int, d: int):
    """PolyIndex.Unpack."""
    k1 = packed & 0x3F
    k2 = (packed >> 6) & 0x3F
    k3 = (packed >> 12) & 0x3F
    k4 = (packed >> 18) & 0x3F
    k5 = (packed >> 24) & 0x3F
    return (d - (k1 + k2 + k3 + k4 + k5), k1, k2, k3, k4, k5)


def rank(k) -> int:
    """PolyIndex.Rank: 0-based position of exponent tuple k in the table of its degree.
    Order: k[0] descending, then k[1] descending, ...  The number of tuples that precede k
    because their i-th entry is larger (earlier entries equal) is the number of monomials of
    degree <= rem-k[i]-1 in the n-i-1 remaining variables = C(rem-k[i]-1 + n-i-1, n-i-1)."""
    n = len(k)
    rem = sum(k)
    pos = 0
    for i in range(n - 1):
        m = n - i - 1                      # variables after slot i
        pos += binom(rem - k[i] - 1 + m, m)
        rem -= k[i]
    return pos


def rank_array(K: np.ndarray) -> np.ndarray:
    """Vectorised `rank` for an (m, 6) integer array of exponent rows."""
    K = np.asarray(K, dtype=np.int64)
    n = K.shape[1]
    maxd = int(K.sum(axis=1).max()) if K.size else 0
    tab = np.zeros((maxd + n + 2, n + 1), dtype=np.int64)   # tab[a, b] = C(a, b)
    for a in range(tab.shape[0]):
        for b in range(min(a, n) + 1):
            tab[a, b] = comb(a, b)
    rem = K.sum(axis=1)
    pos = np.zeros(K.shape[0], dtype=np.int64)
    for i in range(n - 1):
        m = n - i - 1
        a = rem - K[:, i] - 1 + m
        pos += np.where(a >= m, tab[np.maximum(a, 0), m], 0)
        rem = rem - K[:, i]
    return pos


@lru_cache(maxsize=None)
def enum(d: int, n: int = N_VARS):
    """All exponent n-tuples of degree d in table order (PolyIndex.Enum)."""
    if n == 1:
        return ((d,),)
    out = []
    for k0 in range(d, -1, -1):
        for rest in enum(d - k0, n - 1):
            out.append((k0,) + rest)
    return tuple(out)


# --------------------------------------------------------------------------
# exactness helpers
# --------------------------------------------------------------------------

def exact_int(x) -> int:
    xf = float(x)
    xi = int(round(xf)) if np.isfinite(xf) else None
    if xi is None or float(xi) != xf:
        raise ValueError(f"not an exact integer: {x!r}")
    return xi


def exact_gauss(z):
    z = complex(z)
    return (exact_int(z.real), exact_int(z.imag))


# --------------------------------------------------------------------------
# sparse dict <-> TLC JSON
# --------------------------------------------------------------------------

def from_tlc(obj) -> dict:
    """TLC `PolyToSeq(p)` JSON ([[k, re, im], ...]; `[]` for the zero polynomial) -> sparse dict."""
    p = {}
    for term in obj or []:
        k, re, im = term
        k = tuple(int(x) for x in k)
        if len(k) != N_VARS:
            raise ValueError(f"exponent tuple of wrong length: {k}")
        if (re, im) != (0, 0):
            p[k] = (int(re), int(im))
    return p


def to_tlc(p: dict):
    return [[list(k), c[0], c[1]] for k, c in sorted(p.items())]


def degree(p: dict) -> int:
    return max((sum(k) for k in p), default=-1)


def hom_part(p: dict, d: int) -> dict:
    return {k: c for k, c in p.items() if sum(k) == d}


def is_real(p: dict) -> bool:
    return all(c[1] == 0 for c in p.values())


def is_hom(p: dict) -> bool:
    return len({sum(k) for k in p}) <= 1


# --------------------------------------------------------------------------
# sparse dict <-> hiten arrays
# --------------------------------------------------------------------------

def to_block(p: dict, d: int, dtype=np.complex128) -> np.ndarray:
    """Coefficient array (length psi(6,d)) of the degree-d part of p.  dtype float64 requires real p."""
    arr = np.zeros(psi_count(N_VARS, d), dtype=dtype)
    for k, c in p.items():
        if sum(k) != d:
            continue
        if np.dtype(dtype).kind == "c":
            arr[rank(k)] = complex(c[0], c[1])
        else:
            if c[1] != 0:
                raise ValueError("complex coefficient in a real block")
            arr[rank(k)] = float(c[0])
    return arr


def from_block(arr, d: int) -> dict:
    """Sparse dict of a coefficient array of degree d.  Raises ValueError when a coefficient is not an
    exact (Gaussian) integer or the length is not psi(6,d)."""
    arr = np.asarray(arr)
    if arr.shape != (psi_count(N_VARS, d),):
        raise ValueError(f"block of degree {d} has shape {arr.shape}, expected ({psi_count(N_VARS, d)},)")
    tab = enum(d)
    out = {}
    for pos in np.flatnonzero(arr != 0):
        c = exact_gauss(arr[pos])
        if c != (0, 0):
            out[tab[int(pos)]] = c
    if not np.all(np.isfinite(arr.view(np.float64) if arr.dtype.kind == "c" else arr)):
        raise ValueError("non-finite coefficient")
    return out


def to_list(p: dict, max_deg: int):
    """numba typed List of complex128 blocks for degrees 0..max_deg (terms above max_deg are an error)."""
    from numba.typed import List
    if degree(p) > max_deg:
        raise ValueError("polynomial degree exceeds max_deg")
    lst = List()
    for d in range(max_deg + 1):
        lst.append(to_block(p, d, np.complex128))
    return lst


def from_list(lst) -> dict:
    out = {}
    for d in range(len(lst)):
        out.update(from_block(np.asarray(lst[d]), d))
    return out


def gauss_point(x):
    """[[re, im], ...] (TLC) -> complex128 array."""
    return np.array([complex(a, b) for a, b in x], dtype=np.complex128)
