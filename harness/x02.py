"""X02 -- growth of the object layer (DESIGN section 10, items 1-2): orbit families, libration points
with their parent System, invariant tori.  Same requirement as C20:

    every value an operation returns equals what a freshly constructed object in the same logical
    state computes; a save/load round trip preserves all observable state.

Models: spec/objects/FamilyObject.tla, PointObject.tla, TorusObject.tla (+ MC instances, probe modules
spec/objects/probe/MC{Family,Point,Torus}Probe.tla).

For every object
  1. TLC proves the requirement invariants (ReturnedIsFresh, ImplTracksLogical, SaveLoadPreservesObservables,
     DistinctQuantitiesDistinctKeys + structural invariants) for the repaired design (all variant flags TRUE);
  2. the variant flags of the working tree are read off the live code by micro-probes; TLC enumerates, for
     that transcription, (a) one shortest history per distinct state, (b) the transition cover x read battery
     (probe modules), (c) one shortest history per distinct state in which a requirement invariant is FALSE
     (TLC's own counterexamples);
  3. every history is executed on REAL objects and, step by step, on freshly constructed twins in the logical
     state the history defines: returned values (bit-for-bit stamps) and public state must agree; discrete
     observables must also equal the value the specification computes (`expv`); cache hits/misses and
     stale/fresh are compared with the model's predictions.
"""
from __future__ import annotations

import json
import logging
import os
import random
import re
import sys
import time

import numpy as np

from c20 import SmallWorld, drop_prefixes, make_cfg
from common import SPEC, Check, MachineryError, tlc, workdir
from record import CacheRecorder, MemoDynsys, stamp

OBJ = SPEC / "objects"
CFG = SPEC / "cfg"
MAX_REPORT = 12
_T0 = time.time()

PROGRAMMING_ERRORS = {"NameError", "UnboundLocalError", "AttributeError", "TypeError", "ImportError", "ModuleNotFoundError"}


def dbg(*a):
    if os.environ.get("VERIF_DEBUG"):
        print(f"[x02 {time.time() - _T0:7.1f}s]", *a, file=sys.stderr, flush=True)


# ======================================================================================
# fixtures
# ======================================================================================

class Fx:
    """Built once per process: Earth-Moon L1 and two corrected planar Lyapunov orbits."""

    def __init__(self):
        logging.disable(logging.CRITICAL)
        from hiten.system.base import System
        self.System = System
        self.system = System.from_bodies("earth", "moon")
        self.L1 = self.system.get_libration_point(1)
        self.members = []
        for amp in (0.01, 0.012):
            o = self.L1.create_orbit("lyapunov", amplitude_x=amp)
            o.correct()
            self.members.append((np.array(o.initial_state, dtype=float), float(o.period)))
        self.orbit_cls = type(o)
        if stamp(self.members[0][0]) == stamp(self.members[1][0]):
            raise MachineryError("fixture: the two family members coincide")


# ======================================================================================
# common replay loop (extends c20.SmallWorld): hit projection, specification values, undefined operations
# ======================================================================================

class World(SmallWorld):
    name = "?"

    def hit_of(self, ctx, entries, op, arg):
        return self.top_hit(ctx, entries)

    def before(self, h):
        return {id(c) for c in self.caches_of(h)}

    @staticmethod
    def raw(out):
        """the discrete value an outcome carries (third component), or None"""
        return out[2] if len(out) > 2 else None

    def spec_value(self, op, arg, expv):
        """the model's `expv` translated to the harness's raw value"""
        return expv

    def memo_L(self, L):
        """the part of the logical state the twin memo is keyed by"""
        return L

    def spec_obs(self, L):
        k = ("obs", self.memo_L(L))
        if k not in self.memo:
            self.memo[k] = self.observe(self.fresh(L))
        return self.memo[k]

    def replay(self, hist, init=None):
        h = self.new_real(init)
        L = self.L0(init)
        events, problems = [], []
        diverged = None
        for k, st in enumerate(hist):
            op, arg = st["op"], list(st["arg"])
            ctx = self.before(h)
            m = self.rec.mark()
            out_r = self.do(h, op, arg)
            hit = self.hit_of(ctx, self.rec.since(m), op, arg)
            obs_r = self.observe(h)
            out_t, L2, obs_t = self.twin_step(L, op, arg)
            fresh, post = tuple(out_r) == tuple(out_t), tuple(obs_r) == tuple(obs_t)
            # the state the specification says the operation leads to, on an object built directly in that state
            obs_s = self.spec_obs(L2)
            undefined = out_t[0] == "raise" and out_t[1] in PROGRAMMING_ERRORS
            events.append({"op": op, "arg": arg, "hit": hit, "fresh": fresh, "post": post, "defined": not undefined})
            prob = None
            if not fresh or not post:
                key = diverged if (diverged and (fresh or op.startswith("Read"))) else \
                    self.diagnose(op, arg, hit, fresh, post, L, hist[:k + 1])
                prob = key
                if not post:
                    diverged = diverged or key
            elif undefined:
                # the twin oracle cannot see an operation that fails on EVERY object: the specification says it is defined
                prob = f"{self.name}.{op}|raises-{out_t[1]}-on-a-fresh-object"
            elif st.get("expv", "") != "" and self.raw(out_t) != self.spec_value(op, arg, st["expv"]):
                prob = f"{self.name}.{op}|fresh-object-differs-from-specification"
            elif tuple(obs_t) != tuple(obs_s):
                # the twin oracle cannot see an operation that has the wrong effect on EVERY object
                prob = f"{self.name}.{op}|fresh-object-does-not-reach-the-specified-state"
            if prob:
                problems.append({"key": prob, "step": k, "op": op, "arg": arg, "real": list(out_r), "twin": list(out_t),
                                 "real_state": list(obs_r), "twin_state": list(obs_t), "spec_state": list(obs_s), "hit": hit,
                                 "spec": st.get("expv", "")})
            if post:
                diverged = None
            L = L2
        return events, problems


# ======================================================================================
# (a) orbit family
# ======================================================================================

class FamilyWorld(World):
    name = "family"
    STEPS = {"s1": 40, "s2": 60}
    P1 = 2.0
    LIST_VALUES = [7.0, 9.0]
    VECS = {"result1": ([5.0], [10.0]), "result2": ([3.0, 4.0], [5.0, 12.0])}

    NAME = {"list": "amp", "nan": "param", "result1": "param", "result2": "norm"}

    def L0(self, init):
        return (init, (("T", ""), ("T", "")), self.NAME[init], None)

    # ---- construction
    def _members(self):
        out = []
        for x, T in self.fx.members:
            o = self.fx.orbit_cls(self.fx.L1, initial_state=x.copy())
            o.period = T
            out.append(o)
        return out

    def _family(self, ctor):
        from hiten.algorithms.continuation.types import ContinuationResult
        from hiten.system.family import OrbitFamily
        ms = self._members()
        if ctor == "list":
            return OrbitFamily(ms, "amp", np.array(self.LIST_VALUES))
        if ctor == "nan":
            return OrbitFamily(ms)
        if ctor in self.VECS:
            res = ContinuationResult(accepted_count=len(ms), rejected_count=0, success_rate=1.0, family=tuple(ms),
                                     parameter_values=tuple(np.array(v) for v in self.VECS[ctor]), iterations=len(ms))
            return OrbitFamily.from_result(res) if ctor == "result1" else OrbitFamily.from_result(res, "norm")
        raise MachineryError(ctor)

    def new_real(self, init):
        return {"fam": self._family(init), "file": None}

    def _per(self, m, name):
        return {"T": self.fx.members[m][1], "P1": self.P1, "none": None}[name]

    def pername(self, m, value):
        if value is None:
            return "none"
        for n in ("T", "P1"):
            if float(value) == self._per(m, n):
                return n
        return repr(float(value))

    def fresh(self, L):
        ctor, mem, name, _ = L
        fam = self._family(ctor)
        if name != self.NAME[ctor]:
            fam.parameter_name = name
        for m, (per, prop) in enumerate(mem):
            if per != "T":
                fam[m].period = self._per(m, per)
            if prop:
                fam[m].propagate(steps=self.STEPS[prop], method="fixed", order=4)
        return {"fam": fam, "file": None}

    def caches_of(self, h):
        return [o.dynamics._cache for o in h["fam"].orbits]

    def before(self, h):
        return [id(o.dynamics._cache) for o in h["fam"].orbits]

    def hit_of(self, ctx, entries, op, arg):
        out = []
        for cid in ctx:
            x = "-"
            for e in entries:
                if e["e"] == "goc" and e["cache"] == cid and len(e["key"]) > 2 and e["key"][2] == "propagate":
                    x = "H" if e["hit"] else "M"
                    break
            out.append(x)
        return out

    def live_flags(self):
        o = self._members()[0]
        a = stamp(o.propagate(steps=40, method="fixed", order=4))
        o.propagate(steps=60, method="fixed", order=4)
        b = stamp(o.propagate(steps=40, method="fixed", order=4))
        return {"TrajOnHit": a == b == stamp(o.trajectory)}

    # ---- operations
    def _frame(self, fam, df):
        """stamp of the frame + what the specification can say about it: per member (orbit_id, parameter value, setting of
        the exported trajectory), and whether every row is (orbit_id, parameter value, t, state) of the member's trajectory"""
        a = np.asarray(df.to_numpy(dtype=float))
        cols = [str(c) for c in df.columns]
        ref, members = [], []
        nsteps = {v: k for k, v in self.STEPS.items()}
        for m, o in enumerate(fam.orbits):
            t = getattr(o.dynamics, "_trajectory", None)
            if t is None:
                continue
            ts, xs = np.asarray(t.times, dtype=float), np.asarray(t.states, dtype=float)
            pv = float(np.asarray(fam.parameter_values, dtype=float)[m])
            ref.append(np.column_stack([np.full(len(ts), float(m)), np.full(len(ts), pv), ts, xs]))
        ref = np.vstack(ref) if ref else np.zeros((0, 9))
        ok = cols == ["orbit_id", str(fam.parameter_name), "time", "x", "y", "z", "vx", "vy", "vz"] and \
            a.shape == ref.shape and stamp(a) == stamp(ref)
        ids = a[:, 0] if len(a) else np.zeros(0)
        for i in sorted(set(ids.tolist())):
            rows = a[ids == i]
            p = rows[0, 1]
            members.append([int(i) + 1, "nan" if p != p else (int(p) if float(p).is_integer() else float(p)),
                            nsteps.get(len(rows), len(rows))])
        return ("val", stamp((cols, a)), {"members": members, "rows_match": bool(ok)})

    def do(self, h, op, arg):
        import pandas as pd
        from hiten.system.family import OrbitFamily
        fam = h["fam"]
        kw = lambda s: dict(steps=self.STEPS[s], method="fixed", order=4)
        try:
            if op == "Propagate":
                fam.propagate(**kw(arg[0]))
                return ("none",)
            if op == "ToDf":
                return self._frame(fam, fam.to_df(**kw(arg[0])))
            if op == "ToCsv":
                self.n_files += 1
                p = self.wd / f"family{self.n_files}.csv"
                fam.to_csv(str(p), **kw(arg[0]))
                return self._frame(fam, pd.read_csv(p, float_precision="round_trip"))
            if op == "Len":
                return ("val", stamp(int(len(fam))), int(len(fam)))
            which = lambda o: next((i + 1 for i, x in enumerate(fam.orbits) if x is o), 0)
            if op == "GetItem":
                o = fam[arg[0] - 1]
                return ("val", stamp((np.asarray(o.initial_state), o.period)), which(o))
            if op == "Iterate":
                return ("val", stamp([(np.asarray(o.initial_state), o.period) for o in fam]), [which(o) for o in fam])
            if op == "Periods":
                v = np.asarray(fam.periods)
                return ("val", stamp(v), [self.pername(m, None if x != x else x) for m, x in enumerate(v)])
            if op == "Jacobis":
                v = np.asarray(fam.jacobis)
                return ("val", stamp(v), bool(len(v) == len(fam.orbits) and all(float(x) == float(o.jacobi) for x, o in zip(v, fam.orbits))))
            if op == "ParamValues":
                v = np.asarray(fam.parameter_values, dtype=float)
                return ("val", stamp(v), ["nan" if x != x else (int(x) if float(x).is_integer() else float(x)) for x in v])
            if op == "ParamName":
                return ("val", stamp(str(fam.parameter_name)), str(fam.parameter_name))
            if op == "Rename":
                fam.parameter_name = "renamed"
                return ("none",)
            if op == "MemberSetPeriod":
                fam[arg[0] - 1].period = self._per(arg[0] - 1, arg[1])
                return ("none",)
            if op == "MemberPropagate":
                return ("val", stamp(fam[arg[0] - 1].propagate(**kw(arg[1]))))
            if op == "MemberReadTrajectory":
                return ("val", stamp(fam[arg[0] - 1].trajectory))
            if op == "Save":
                self.n_files += 1
                h["file"] = self.wd / f"family{self.n_files}.pkl"
                fam.save(h["file"])
                return ("none",)
            if op == "Load":
                h["fam"] = OrbitFamily.load(h["file"])
                return ("none",)
            if op == "LoadInplace":
                fam.load_inplace(h["file"])
                return ("none",)
        except Exception as ex:  # noqa
            return ("raise", type(ex).__name__)
        raise MachineryError(op)

    def observe(self, h):
        fam = h["fam"]
        mem = []
        for m, o in enumerate(fam.orbits):
            t = getattr(o.dynamics, "_trajectory", None)
            mem.append((self.pername(m, o.period), None if t is None else stamp(t), stamp(np.asarray(o.initial_state))))
        return (len(fam), str(fam.parameter_name), stamp(np.asarray(fam.parameter_values, dtype=float)), tuple(mem))

    def step_logical(self, L, op, arg, out):
        ctor, mem, name, saved = L
        mem = [list(x) for x in mem]
        if op == "Rename":
            name = "renamed"

        def prop_all(s, only_missing):
            for x in mem:
                if only_missing and x[1]:
                    continue
                if x[0] == "none":
                    return
                x[1] = s
        if op == "Propagate":
            prop_all(arg[0], False)
        elif op in ("ToDf", "ToCsv"):
            prop_all(arg[0], True)
        elif op == "MemberSetPeriod":
            x = mem[arg[0] - 1]
            if x[0] != arg[1]:
                x[0], x[1] = arg[1], ""
        elif op == "MemberPropagate":
            if mem[arg[0] - 1][0] != "none":
                mem[arg[0] - 1][1] = arg[1]
        mem = tuple(tuple(x) for x in mem)
        if op == "Save":
            saved = (mem, name)
        if op in ("Load", "LoadInplace"):
            mem, name = saved
        return (ctor, mem, name, saved)

    def twin_step(self, L, op, arg, memo=True):
        if op in ("Load", "LoadInplace"):
            L2 = self.step_logical(L, op, arg, None)
            return ("none",), L2, self.spec_obs(L2)
        out, _, obs = super().twin_step(self.memo_L(L), op, arg, memo)
        return out, self.step_logical(L, op, arg, None), obs

    def memo_L(self, L):
        return (L[0], L[1], L[2], None)

    def diagnose(self, op, arg, hit, fresh, post, L, prefix):
        if op in ("Load", "LoadInplace"):
            return "family.save-load|state-not-preserved"
        if op in ("ToDf", "ToCsv", "Propagate", "MemberPropagate", "MemberReadTrajectory") and not fresh:
            return f"family.{op}|member-trajectory-differs-from-fresh-twin"
        return f"family.{op}|differs-from-fresh-twin"


# ======================================================================================
# (b) libration point + parent System
# ======================================================================================

class PointWorld(World):
    name = "point"
    IDX = {"L1": 1, "L2": 2, "L3": 3, "L4": 4, "L5": 5}
    DEG = {"d2": 2, "d3": 3}
    CN = {"k2": 2, "k3": 3}
    # (delta, tol); oD is read off the library at start-up.  delta <= 1 is enforced by the library, so the options are
    # observable through the classification only where an eigenvalue lies within 1 of the threshold: L3 (real pair
    # +-0.18: centre for delta = 0.5) and, under the discrete-time config, L3/L4; at L1/L2 only the config is.
    OPTS = {"oD": None, "o1": (0.5, 1e-6), "o2": (0.008, 1e-6)}
    ALT = (3.0, 2.5)
    TF = {"t1": 0.5, "t2": 0.8}
    STATE0 = [0.8, 0.0, 0.0, 0.0, 0.1, 0.0]

    def __init__(self, fx, rec, wd, self_name="L1"):
        super().__init__(fx, rec, wd)
        from hiten.algorithms.linalg.config import EigenDecompositionConfig
        from hiten.algorithms.linalg.options import EigenDecompositionOptions
        from hiten.algorithms.linalg.types import _ProblemType, _SystemType
        self.self_name, self.idx = self_name, self.IDX[self_name]
        self.collinear = self.idx <= 3
        self.hamiltonians = self.idx <= 2          # "L3 points are not supported yet" / "Triangular points are not supported yet"
        self.name = "point_" + self_name
        self.Options = EigenDecompositionOptions
        self.mkcfg = {"cC": lambda: EigenDecompositionConfig(problem_type=_ProblemType.EIGENVALUE_DECOMPOSITION, system_type=_SystemType.CONTINUOUS),
                      "cD": lambda: EigenDecompositionConfig(problem_type=_ProblemType.EIGENVALUE_DECOMPOSITION, system_type=_SystemType.DISCRETE)}
        self.cfgname = {_SystemType.CONTINUOUS: "cC", _SystemType.DISCRETE: "cD"}
        p = self._new()["pt"]
        d = p.dynamics.eigendecomposition_options
        self.OPTS = dict(self.OPTS, oD=(float(d.delta), float(d.tol)))
        if self.cfgname[p.dynamics.eigendecomposition_config.system_type] != "cC":
            raise MachineryError("library default eigendecomposition config is not continuous-time")
        if self.collinear:
            lm = p.linear_modes
            self.OWN = (float(lm[0]), float(lm[1]))

    def L0(self, init):
        return ("oD", "cC", (self.self_name,), None)

    def _new(self, pts=None):
        s = self.fx.System.from_bodies("earth", "moon")
        pt = s.get_libration_point(self.idx)
        for n in (pts or ()):
            s.get_libration_point(self.IDX[n])
        return {"sys": s, "pt": pt, "file": None}

    def new_real(self, init=None):
        return self._new()

    def fresh(self, L):
        o, c, pts, _ = L
        h = self._new(pts)
        if o != "oD":
            h["pt"].dynamics.eigendecomposition_options = self.Options(delta=self.OPTS[o][0], tol=self.OPTS[o][1])
        if c != "cC":
            h["pt"].dynamics.eigendecomposition_config = self.mkcfg[c]()
        return h

    def caches_of(self, h):
        return [h["pt"].dynamics._cache]

    def before(self, h):
        return {"pt": {id(h["pt"].dynamics._cache)}, "sys": {id(h["sys"].dynamics._cache)}}

    def hit_of(self, ctx, entries, op, arg):
        if op == "SysPropagate":
            for e in entries:      # (the System's cache also serves mu and the vector fields: only the propagate entry counts)
                if e["e"] == "goc" and e["cache"] in ctx["sys"] and len(e["key"]) > 2 and e["key"][2] == "propagate":
                    return "H" if e["hit"] else "M"
            return "-"
        return self.top_hit(ctx["pt"], entries)

    def optname(self, o):
        if o is None:
            return "oD"
        for n, v in self.OPTS.items():
            if (float(o.delta), float(o.tol)) == v:
                return n
        return repr((o.delta, o.tol))

    def must(self, h, op, arg):
        out = self.do(h, op, arg)
        if out[0] == "raise":
            raise MachineryError(f"{self.name}: micro-probe operation {op}{arg} raised {out[1]}")
        return out

    def live_flags(self):
        f = {"Collinear": self.collinear, "Self": self.self_name}
        if self.collinear:
            h, g = self._new(), self._new()
            self.must(h, "ScaleFactor", ["alt"])
            f["ScaleKeyHasArgs"] = self.must(h, "ScaleFactor", ["own"]) == self.must(g, "ScaleFactor", ["own"])
        if self.hamiltonians:
            h = self._new()
            self.must(h, "RetargetCM", ["d3", "d2"])
            f["CMRecheck"] = self.must(h, "GetCM", ["d3"])[2] == "d3"
        h = self._new()
        a = self.must(h, "Eigenvalues", [])
        self.must(h, "SetConfig", ["cD"])
        b = self.must(self.fresh(("oD", "cD", (self.self_name,), None)), "Eigenvalues", [])
        if a == b:
            raise MachineryError(f"{self.name}: the two configs are not distinguishable through the eigenvalues")
        f["StabKeyHasConfig"] = self.must(h, "Eigenvalues", []) == b
        h = self._new()
        for op, arg in (("SetOptions", ["o1"]), ("SysSaveLoad", ["load"]), ("SetOptions", ["none"]), ("SysSaveLoad", ["load"])):
            self.must(h, op, arg)
        f["LeftoverFix"] = self.must(h, "ReadOptions", [])[2] == "oD"
        # which (options, config) pairs are observable through the eigenvalues at this point (evidence only)
        st = {(o, c): self.must(self.fresh((o, c, (self.self_name,), None)), "Eigenvalues", [])[1] for o in self.OPTS for c in ("cC", "cD")}
        self.observable = {f"{c}:{o1}/{o2}": st[(o1, c)] != st[(o2, c)] for c in ("cC", "cD") for o1 in self.OPTS for o2 in self.OPTS if o1 < o2}
        self.flags = dict(f)
        return f

    # ---- operations
    def do(self, h, op, arg):
        pt, s = h["pt"], h["sys"]
        dyn = pt.dynamics
        try:
            if op == "Position":
                return ("val", stamp(np.asarray(pt.position)))
            if op == "Gamma":
                return ("val", stamp(float(pt.gamma)))
            if op == "Cn":
                return ("val", stamp(float(dyn.cn(self.CN[arg[0]]))))
            if op == "LinearModes":
                return ("val", stamp(tuple(float(x) for x in pt.linear_modes)))
            if op == "NormalForm":
                return ("val", stamp(tuple(np.asarray(x) for x in pt.normal_form_transform)))
            if op == "LinearData":
                return ("val", stamp(tuple(None if x is None else np.asarray(x) for x in pt.linear_data)))
            if op == "Energy":
                return ("val", stamp(float(pt.energy)))
            if op == "Jacobi":
                return ("val", stamp(float(pt.jacobi)))
            if op == "Eigenvalues":
                return ("val", stamp(tuple(np.asarray(x) for x in pt.eigenvalues)))
            if op == "IsStable":
                return ("val", stamp(bool(pt.is_stable)))
            if op == "ScaleFactor":
                if self.collinear:
                    r = dyn.scale_factor(*(self.OWN if arg[0] == "own" else self.ALT))
                    return ("val", stamp(tuple(float(x) for x in r)))
                return ("val", stamp(float(dyn.scale_factor(int(arg[0][1])))))
            if op == "Hamiltonian":
                H = pt.hamiltonian(self.DEG[arg[0]], arg[1])
                return ("val", stamp((int(H.degree), str(H.name), int(H.ndof), [np.asarray(b) for b in H.poly_H])))
            if op == "HamSys":
                hs = pt.hamiltonian_system(arg[1], self.DEG[arg[0]])
                return ("val", stamp((str(hs.name), int(hs.degree), int(hs.n_dof), [np.asarray(b) for b in hs.H_blocks])))
            if op == "GenFuncs":
                g = pt.generating_functions(self.DEG[arg[0]])
                return ("val", stamp([(str(x.name), int(x.degree), [np.asarray(b) for b in x.poly_G]) for x in g]))
            if op == "GetCM":
                d = int(pt.get_center_manifold(self.DEG[arg[0]]).degree)
                return ("val", stamp(d), {v: k for k, v in self.DEG.items()}.get(d, d))
            if op == "RetargetCM":
                pt.get_center_manifold(self.DEG[arg[0]]).degree = self.DEG[arg[1]]
                return ("none",)
            if op == "CreateOrbit":
                return ("val", stamp(np.asarray(pt.create_orbit("lyapunov", amplitude_x=0.01).initial_state)))
            if op == "ReadOptions":
                n = self.optname(dyn.eigendecomposition_options)
                return ("val", stamp(n), n)
            if op == "SetOptions":
                dyn.eigendecomposition_options = None if arg[0] == "none" else self.Options(delta=self.OPTS[arg[0]][0], tol=self.OPTS[arg[0]][1])
                return ("none",)
            if op == "ReadConfig":
                n = self.cfgname.get(dyn.eigendecomposition_config.system_type, "?")
                return ("val", stamp(n), n)
            if op == "SetConfig":
                dyn.eigendecomposition_config = None if arg[0] == "none" else self.mkcfg[arg[0]]()
                return ("none",)
            if op == "SysGetPoint":
                q = s.get_libration_point(self.IDX[arg[0]])
                return ("val", stamp((int(q.idx), np.asarray(q.position))), f"L{int(q.idx)}")
            if op == "SysPropagate":
                return ("val", stamp(s.propagate(list(self.STATE0), tf=self.TF[arg[0]], steps=20, method="adaptive", order=8)))
            if op == "SysPoints":
                k = sorted(int(i) for i in s.libration_points)
                return ("val", stamp(k), [f"L{i}" for i in k])
            if op == "Save":
                self.n_files += 1
                h["file"] = self.wd / f"point{self.n_files}.pkl"
                pt.save(h["file"])
                return ("none",)
            if op == "Load":
                h["pt"] = type(pt).load(h["file"])
                h["sys"] = h["pt"].system
                return ("none",)
            if op == "LoadInplace":
                pt.load_inplace(h["file"])
                h["sys"] = pt.system
                return ("none",)
            if op == "SysSaveLoad":
                self.n_files += 1
                p = self.wd / f"system{self.n_files}.pkl"
                s.save(p)
                if arg[0] == "inplace":
                    s.load_inplace(p)
                else:
                    h["sys"] = self.fx.System.load(p)
                h["pt"] = h["sys"].get_libration_point(self.idx)
                return ("none",)
        except Exception as ex:  # noqa
            return ("raise", type(ex).__name__)
        raise MachineryError(op)

    def spec_value(self, op, arg, expv):
        return sorted(expv) if isinstance(expv, list) else expv

    def observe(self, h):
        # side-effect free: the option/config getters materialise defaults, so the attributes are read directly
        pt = h["pt"]
        d = pt.dynamics
        c = getattr(d, "_eigendecomposition_config", None)
        return (self.optname(getattr(d, "_eigendecomposition_options", None)),
                "cC" if c is None else self.cfgname.get(c.system_type, "?"),
                tuple(sorted(int(i) for i in pt.system.libration_points)), int(pt.idx), stamp(float(pt.mu)))

    def step_logical(self, L, op, arg, out):
        o, c, pts, saved = L
        if op == "SetOptions":
            o = "oD" if arg[0] == "none" else arg[0]
        elif op == "SetConfig":
            c = "cC" if arg[0] == "none" else arg[0]
        elif op == "SysGetPoint":
            pts = tuple(sorted(set(pts) | {arg[0]}, key=lambda n: (n != self.self_name, n)))
        elif op == "Save":
            saved = (o, c, pts)
        elif op in ("Load", "LoadInplace"):
            o, c, pts = saved
        return (o, c, pts, saved)

    def memo_L(self, L):
        return (L[0], L[1], L[2], None)          # what is on disk does not influence any operation but Load

    def twin_step(self, L, op, arg, memo=True):
        L2 = self.step_logical(L, op, arg, None)
        if op in ("Load", "LoadInplace", "SysSaveLoad"):
            # the meaning of a round trip: the object is in the saved logical state
            return ("none",), L2, self.spec_obs(L2)
        out, _, obs = super().twin_step(self.memo_L(L), op, arg, memo)
        return out, L2, obs

    def diagnose(self, op, arg, hit, fresh, post, L, prefix):
        # operations since the point's cache was last emptied
        start = 0
        for i, st in enumerate(prefix[:-1]):
            if st["op"] in ("Load", "LoadInplace", "SysSaveLoad"):
                start = i + 1
        since = prefix[start:-1]
        ops = [s["op"] for s in since]
        alt = any(s["op"] == "ScaleFactor" and list(s["arg"]) == ["alt"] for s in since)
        own = any(s["op"] in ("ScaleFactor", "NormalForm", "LinearData", "Save", "Hamiltonian", "HamSys", "GenFuncs") and
                  list(s["arg"]) != ["alt"] for s in since)
        # a deviation the micro-probes have already identified is named after its cause; anything else after the operation
        fl = getattr(self, "flags", {})
        sf_bug, cfg_bug = not fl.get("ScaleKeyHasArgs", True), not fl.get("StabKeyHasConfig", True)
        left_bug, cm_bug = not fl.get("LeftoverFix", True), not fl.get("CMRecheck", True)
        if sf_bug and op == "ScaleFactor" and not fresh and hit == "H" and (alt or own):
            return "libration.scale_factor|arguments-not-in-cache-key"
        if sf_bug and op in ("NormalForm", "LinearData", "Hamiltonian", "HamSys", "GenFuncs") and not fresh and alt:
            return "libration.scale_factor|arguments-not-in-cache-key"
        if cfg_bug and op in ("Eigenvalues", "IsStable") and not fresh and hit == "H" and "SetConfig" in ops:
            return "libration.compute_stability|stale-after-config-change"
        if op in ("Eigenvalues", "IsStable") and not fresh and hit == "H":
            return "libration.compute_stability|stale-cache-entry"
        if op in ("Load", "LoadInplace", "SysSaveLoad") or (op in ("ReadOptions", "ReadConfig", "Eigenvalues", "IsStable") and not post):
            reset = any(s["op"] in ("SetOptions", "SetConfig") and list(s["arg"]) == ["none"] for s in prefix)
            loaded = any(s["op"] in ("Load", "LoadInplace", "SysSaveLoad") for s in prefix[:-1])
            if left_bug and reset and loaded:
                return "libration.save-load|reset-option-attribute-resurrected"
            return "libration.save-load|state-not-preserved"
        if cm_bug and op == "GetCM":
            return "libration.center_manifold|cached-object-degree-mutated"
        if cm_bug and op in ("Hamiltonian", "HamSys", "GenFuncs") and "RetargetCM" in ops:
            return "libration.hamiltonian|computed-from-retargeted-center-manifold"
        if not fresh and hit == "H":
            return f"point.{op}|stale-or-aliased-cache-entry"
        return f"point.{op}|differs-from-fresh-twin"


# ======================================================================================
# (c) invariant torus (cheap operations)
# ======================================================================================

class TorusWorld(World):
    name = "torus"
    EPS = {"eA": 1e-4, "eB": 1e-3}
    N1 = {"n16": 16, "n24": 24}
    N2 = 8
    KW = dict(method="fixed", order=4)

    def __init__(self, fx, rec, wd):
        super().__init__(fx, rec, wd)
        x, T = fx.members[0]
        self.x = x
        # periods that differ in the last bits only: the monodromy keeps its unit-modulus pair (|.| - 1 < 1e-6)
        self.per = {"T": T, "P1": T * (1 + 1e-8), "P2": T * (1 + 2e-8)}
        self.pername = {v: k for k, v in self.per.items()}
        self.res_memo = {}

    def L0(self, init):
        return ("T", None)

    def _pair(self, per):
        from hiten.system.torus import InvariantTori
        o = self.fx.orbit_cls(self.fx.L1, initial_state=self.x.copy())
        o.period = self.per[per]
        return {"orbit": o, "t": InvariantTori(o)}

    def new_real(self, init=None):
        return self._pair("T")

    def fresh(self, L):
        return self._pair(L[0])

    def caches_of(self, h):
        return [h["t"].dynamics._cache]

    def live_flags(self):
        h = self._pair("T")
        self.do(h, "Compute", ["eA", "n16"])
        self.do(h, "OrbitSetPeriod", ["P1"])
        f = {"KeyHasOrbitState": self.do(h, "Compute", ["eA", "n16"]) == self.do(self._pair("P1"), "Compute", ["eA", "n16"])}
        f["AsTorusWorks"] = self.do(self._pair("T"), "AsTorus", ["eA", "n16"])[0] == "val"
        self.flags = dict(f)
        return f

    def do(self, h, op, arg):
        from hiten.system.torus import InvariantTori
        t = h["t"]
        try:
            if op == "OrbitSetPeriod":
                h["orbit"].period = self.per[arg[0]]
                return ("none",)
            if op == "Compute":
                return ("val", stamp(np.asarray(t.compute(epsilon=self.EPS[arg[0]], n_theta1=self.N1[arg[1]], n_theta2=self.N2, **self.KW))))
            if op == "ReadGrid":
                return ("val", stamp(np.asarray(t.grid)))
            if op == "ReadParams":
                p = t.dynamics.params
                return ("val", stamp((float(p["epsilon"]), int(p["n_theta1"]), int(p["n_theta2"]), str(p["method"]), int(p["order"]))))
            if op == "ReadEigenvalues":
                return ("val", stamp(np.asarray(t.dynamics.eigenvalues)))
            if op == "State":
                return ("val", stamp(np.asarray(t.dynamics.state(0.3, 0.4, epsilon=self.EPS["eA"], n_theta1=self.N1[arg[0]], **self.KW))))
            if op == "AsTorus":
                r = t.dynamics.as_torus(epsilon=self.EPS[arg[0]], n_theta1=self.N1[arg[1]], n_theta2=self.N2, **self.KW)
                return ("val", stamp((np.asarray(r.grid), np.asarray(r.omega), float(r.C0))))
            if op == "NewTori":
                h["t"] = InvariantTori(h["orbit"])
                return ("none",)
            if op == "SaveLoad":
                self.n_files += 1
                p = self.wd / f"torus{self.n_files}.pkl"
                t.save(p)
                h["t"] = InvariantTori.load(p)
                h["orbit"] = h["t"].orbit
                return ("none",)
        except Exception as ex:  # noqa
            return ("raise", type(ex).__name__)
        raise MachineryError(op)

    def memo_L(self, L):
        return (L[0], None)

    def spec_obs(self, L):
        return (L[0],) + tuple(self.grid_at(L[1]))

    def grid_at(self, lastC):
        """what tori.grid / params must hold: the outcome of compute(e, n) on a fresh object of the orbit as it was then"""
        if lastC is None:
            return (None, None)
        if lastC not in self.res_memo:
            h = self._pair(lastC[2])
            g = self.do(h, "Compute", [lastC[0], lastC[1]])
            self.res_memo[lastC] = (g[1] if g[0] == "val" else None, self.do(h, "ReadParams", [])[1])
        return self.res_memo[lastC]

    def observe(self, h):
        d = h["t"].dynamics
        g, p = getattr(d, "_latest_grid", None), getattr(d, "_latest_params", None)
        return (self.pername.get(h["orbit"].period, repr(h["orbit"].period)),
                None if g is None else stamp(np.asarray(g)),
                None if p is None else stamp((float(p["epsilon"]), int(p["n_theta1"]), int(p["n_theta2"]), str(p["method"]), int(p["order"]))))

    def step_logical(self, L, op, arg, out):
        per, lastC = L
        if op == "OrbitSetPeriod":
            return (arg[0], lastC)
        if op in ("Compute", "AsTorus"):
            return (per, (arg[0], arg[1], per))
        if op == "NewTori":
            return (per, None)
        return L

    def twin_step(self, L, op, arg, memo=True):
        # the twin is built WITHOUT history: grid/params of the last compute come from grid_at
        g, p = self.grid_at(L[1])
        if op == "ReadGrid":
            return (("raise", "ValueError") if g is None else ("val", g)), L, (L[0], g, p)
        if op == "ReadParams":
            return (("raise", "ValueError") if p is None else ("val", p)), L, (L[0], g, p)
        out, L2, obs = super().twin_step(self.memo_L(L), op, arg, memo)
        L2 = self.step_logical(L, op, arg, out)
        g2, p2 = self.grid_at(L2[1])
        return out, L2, (L2[0], g2, p2)

    def diagnose(self, op, arg, hit, fresh, post, L, prefix):
        start, changed = 0, False
        for i, st in enumerate(prefix[:-1]):
            if st["op"] in ("NewTori", "SaveLoad"):
                start, changed = i + 1, False
            elif st["op"] == "OrbitSetPeriod" and any(s["op"] in ("Compute", "AsTorus", "State", "ReadEigenvalues") for s in prefix[start:i]):
                changed = True
        what = {"Compute": "compute_grid", "AsTorus": "as_torus", "State": "prepare", "ReadEigenvalues": "eigen_data"}.get(op)
        if what and changed and (not fresh or op in ("Compute", "AsTorus")) and not getattr(self, "flags", {}).get("KeyHasOrbitState", True):
            return f"torus.{'compute_grid' if op == 'AsTorus' else what}|stale-after-orbit-change"
        if op in ("ReadGrid", "ReadParams") or (what and fresh and not post):
            return "torus.grid|not-the-last-computed-grid"
        if op == "SaveLoad":
            return "torus.save-load|state-not-preserved"
        return f"torus.{op}|differs-from-fresh-twin"


# ======================================================================================
# driver for one object
# ======================================================================================

def _histories(r, what):
    hs = [h for h in r.printed() if isinstance(h, list) and h]
    if what == "viol":
        hs = [h for h in r.printed() if isinstance(h, dict)]
    return hs


def _label(h):
    return [s["op"] + ("(" + ",".join(str(a) for a in s["arg"]) + ")" if s["arg"] else "") for s in h]


class Plan:
    """The TLC runs of one object, started in the background as soon as the variant flags of the working tree
    are known (TLC is a sub-process: the runs of all objects proceed while Python replays histories)."""

    def __init__(self, pool, world: World, wd, *, mcspec, probe_spec, repaired, asis, viol, probe, budget, flags0=None, persist=None):
        self.world, self.budget = world, budget
        self.names = dict(repaired=repaired, asis=asis, viol=list(viol), probe=probe, persist=persist)
        self.t_start = time.time()
        self.flags = dict(flags0 or {})
        self.flags.update(world.live_flags())
        dbg(world.name, "live flags", self.flags)
        self.variant = {k: v for k, v in self.flags.items() if isinstance(v, bool) and k != "Collinear"}
        if all(self.variant.values()):
            # the working tree implements the repaired design: the proof of the requirement covers it
            self.names["viol"] = []
        cfg = lambda n: make_cfg(n, self.flags, wd, f"{world.name}.{n}")
        # many small JVMs run side by side: keep each one's garbage-collector and JIT thread pools small
        jv = {"JAVA_TOOL_OPTIONS": "-XX:ParallelGCThreads=2 -XX:CICompilerCount=2"}
        self.f_repaired = pool.submit(tlc, OBJ / mcspec, CFG / repaired, timeout=2400, workers=4, env=jv)
        self.f_asis = pool.submit(tlc, OBJ / mcspec, cfg(asis), timeout=2400, workers=1, env=jv)
        self.f_probe = pool.submit(tlc, OBJ / "probe" / probe_spec, cfg(probe), timeout=2400, workers=1, env=jv)
        self.f_viol = [pool.submit(tlc, OBJ / mcspec, cfg(v), timeout=2400, workers=1, env=jv) for v in self.names["viol"]]
        self.f_persist = pool.submit(tlc, OBJ / "probe" / probe_spec, cfg(persist), timeout=2400, workers=1, env=jv) if persist else None
        # does "distinct quantities have distinct keys" hold for the keys of the working tree?  (the invariant alone, initial state)
        self.f_keys = None
        if self.names["viol"]:
            kp = make_cfg(repaired, self.flags, wd, f"{world.name}.keys.cfg")
            lines = [ln for ln in kp.read_text().splitlines()
                     if not ln.startswith("INVARIANT") or ln.split()[1] == "DistinctQuantitiesDistinctKeys"]
            kp.write_text(re.sub(r"MaxLen = \d+", "MaxLen = 0", "\n".join(lines)) + "\n")
            self.f_keys = pool.submit(tlc, OBJ / mcspec, kp, timeout=600, workers=1, env=jv)


def run_object(ck: Check, plan: Plan, rnd):
    world, flags, names = plan.world, plan.flags, plan.names
    name = world.name
    # 1. TLC proves the requirement for the repaired design
    ck.model(f"{name}:{names['repaired'][:-4]}", plan.f_repaired.result())
    ck.part(name + "_replay", live_flags=dict(flags))
    if hasattr(world, "observable"):
        ck.part(name + "_replay", option_pairs_distinguishable_through_eigenvalues=world.observable)
    # 2a. one shortest history per distinct state of the transcription of the working tree
    ra = plan.f_asis.result()
    ck.model(f"{name}:{names['asis'][:-4]}.live", ra)
    cover = drop_prefixes(_histories(ra, "state"))
    total_cover = len(cover)
    if len(cover) > plan.budget:
        cover = rnd.sample(cover, plan.budget)
    # 2b. transition cover x read battery: never sampled away
    rp = plan.f_probe.result()
    ck.model(f"{name}:{names['probe'][:-4]}.live", rp)
    ph = _histories(rp, "state")
    if not ph:
        raise MachineryError(f"{names['probe']} emitted no histories")
    # 2b'. persistence probe ([writer;] save; writer; load; reads): never sampled away
    pp = []
    if plan.f_persist is not None:
        rq = plan.f_persist.result()
        ck.model(f"{name}:{names['persist'][:-4]}.live", rq)
        pp = _histories(rq, "state")
        if not pp:
            raise MachineryError(f"{names['persist']} emitted no histories")
    # 2c. TLC's counterexamples to the requirement on the live transcription: shortest history per class
    classes, n_viol_states = {}, 0
    for v, fv in zip(names["viol"], plan.f_viol):
        rv = fv.result()
        ck.model(f"{name}:{v[:-4]}.live", rv)
        for rec_ in _histories(rv, "viol"):
            n_viol_states += 1
            h = rec_["hist"]
            k = (tuple(sorted(rec_["violated"])), h[-1]["op"], json.dumps(h[-1]["arg"]))
            if k not in classes or len(h) < len(classes[k]):
                classes[k] = h
    predicted = list(classes.values())
    refuted = sorted({x for k in classes for x in k[0]})
    if plan.f_keys is not None:
        rk = plan.f_keys.result()
        # (TLC evaluates a constant-level invariant before the search: "The invariant of X is equal to FALSE")
        false_ = "DistinctQuantitiesDistinctKeys is equal to FALSE" in rk.out or rk.invariant_violated == "DistinctQuantitiesDistinctKeys"
        if not (rk.ok or false_):
            raise MachineryError(f"{name}: key-distinctness run failed: {rk.error}\n{rk.out[-2000:]}")
        if false_:
            refuted.append("DistinctQuantitiesDistinctKeys")
    ck.part(name + "_model", live_transcription_is_repaired_design=all(plan.variant.values()),
            requirement_refuted_for_live_transcription=refuted, violating_states=n_viol_states, violating_classes=len(classes))

    hists = [("cover", h) for h in cover] + [("probe", h) for h in ph] + [("persist", h) for h in pp] + [("predicted", h) for h in predicted]
    viol_found, mism, coincident, n_stale_model, n_bad, unconfirmed = {}, 0, 0, 0, 0, 0
    t0 = time.time()
    for src, h in hists:
        init = h[0].get("init")
        events, problems = world.replay(h, init)
        world.rec.clear()
        ck.count((name, init, json.dumps([[s["op"], s["arg"]] for s in h])), len(h) >= 3)
        for e, s in zip(events, h):
            bad = (not e["fresh"]) or (not e["defined"])
            n_stale_model += bool(s["stale"])
            n_bad += bad
            if s["hit"] != e["hit"] or (bad and not s["stale"]):
                # the transcription does not conform to the code: a lookup it predicts differently, or a value it
                # believes fresh that is not
                mism += 1
                if mism <= 6:
                    dbg(name, "prediction mismatch", _label(h), "at", e, "model", s)
            elif s["stale"] and not bad:
                # predicted stale, but the value returned coincides with the fresh one (e.g. a bool that is the same
                # for both inputs): not observable, not a conformance failure
                coincident += 1
        if src == "predicted" and not problems:
            unconfirmed += 1
            dbg(name, "model-predicted violation not observable on the code:", _label(h))
        for p in problems:       # per key, the shortest failing history
            if p["key"] not in viol_found or p["step"] + 1 < len(viol_found[p["key"]][0]):
                viol_found[p["key"]] = (h[: p["step"] + 1], p, init)
    ck.part(name + "_replay", histories=len(hists), cover=len(cover), cover_of=total_cover, probe_histories=len(ph), persistence_probe_histories=len(pp),
            predicted_violation_histories=len(predicted), predicted_not_observable=unconfirmed,
            steps=sum(len(h) for _, h in hists), model_stale_steps=n_stale_model, real_stale_steps=n_bad,
            prediction_mismatches=mism, predicted_stale_but_values_coincide=coincident,
            twin_evaluations=world.twin_evals, wall_s=round(time.time() - t0, 1))
    if mism:
        ck.notes.append(f"{name}: {mism} step(s) where the transcription's prediction (hit/miss, or a value it believes fresh) "
                        f"differs from the code")
    for key, (h, p, init) in list(viol_found.items())[:MAX_REPORT]:
        ck.violation(key, f"{name}{' (' + str(init) + ')' if init else ''}, history {_label(h)}: step {p['step']} {p['op']} returned "
                          f"{p['real']} / state {p['real_state']}; freshly constructed objects in the same logical state give "
                          f"{p['twin']} / state {p['twin_state']}" + (f"; the specification says {p['spec']}" if p["spec"] != "" else ""),
                     {"object": name, "history": [[s["op"], s["arg"]] for s in h], "init": init,
                      "expv": [s.get("expv", "") for s in h], "problem": p})
    ck.sample({"object": name, "example_history": _label(hists[len(hists) // 2][1]), "live_flags": flags})
    selftest(world, [h for _, h in hists], rnd)
    # the twin oracle must be deterministic
    keys = [k for k in world.memo if len(k) == 3]
    nondet = sum(1 for k in rnd.sample(keys, min(len(keys), 10))
                 if SmallWorld.twin_step(world, k[0], k[1], list(k[2]), memo=False) != world.memo[k])
    if nondet:
        raise MachineryError(f"{name}: twin oracle is not deterministic")
    ck.part(name + "_replay", total_wall_s=round(time.time() - plan.t_start, 1))
    dbg(name, "done")


def selftest(world: World, hists, rnd):
    """Binding self-test: a corrupted prediction must be noticed by the comparison that is supposed to notice it."""
    # 1. corrupted twin value: the replay must report a problem at exactly that step
    done = False
    for h in sorted(hists, key=len):
        ev0, pr0 = world.replay(h, h[0].get("init"))
        world.rec.clear()
        if pr0:
            continue
        L = world.L0(h[0].get("init"))
        for k, st in enumerate(h):
            key = (world.memo_L(L), st["op"], tuple(st["arg"]))
            L = world.step_logical(L, st["op"], list(st["arg"]), None)
            if key not in world.memo or world.memo[key][0][0] != "val":
                continue
            saved = world.memo[key]
            world.memo[key] = (("val", "0" * 16) + tuple(saved[0][2:]), saved[1], saved[2])
            try:
                _, pr = world.replay(h, h[0].get("init"))
            finally:
                world.memo[key] = saved
                world.rec.clear()
            if not any(p["op"] == st["op"] for p in pr):
                raise MachineryError(f"{world.name}: binding self-test failed: a corrupted twin value at {st['op']} was not noticed")
            done = True
            break
        if done:
            break
    if not done:
        raise MachineryError(f"{world.name}: binding self-test found no clean history to corrupt")
    # 2. corrupted specification value
    for h in hists:
        ks = [k for k, s in enumerate(h) if s.get("expv", "") != ""]
        if not ks:
            continue
        _, pr0 = world.replay(h, h[0].get("init"))
        world.rec.clear()
        if pr0:
            continue
        h2 = json.loads(json.dumps(h))
        h2[ks[0]]["expv"] = "corrupted"
        _, pr = world.replay(h2, h2[0].get("init"))
        world.rec.clear()
        if not any(p["step"] == ks[0] and p["key"].endswith("differs-from-specification") for p in pr):
            raise MachineryError(f"{world.name}: binding self-test failed: a corrupted specification value was not noticed")
        break


# ======================================================================================
# replay of one recorded violation
# ======================================================================================

def make_world(name, fx, rec, wd):
    if name == "family":
        return FamilyWorld(fx, rec, wd)
    if name.startswith("point_"):
        return PointWorld(fx, rec, wd, name.split("_")[1])
    if name == "torus":
        return TorusWorld(fx, rec, wd)
    raise MachineryError(f"unknown object {name}")


def replay_one(fx, rec, data) -> bool:
    w = make_world(data["object"], fx, rec, workdir("x02r"))
    w.live_flags()          # the diagnosis names a deviation the micro-probes identify after its cause
    rec.clear()
    if any(o in ("Hamiltonian", "HamSys", "GenFuncs") for o, _ in data["history"]):
        warm_up(w)
    expv = data.get("expv") or [""] * len(data["history"])
    hist = [{"op": o, "arg": a, "expv": e} for (o, a), e in zip(data["history"], expv)]
    events, problems = w.replay(hist, data.get("init"))
    print(json.dumps({"events": events, "problems": problems}, indent=1, default=str))
    return bool(problems)


# ======================================================================================
# main
# ======================================================================================

def main(tier=None, replay=None):
    ck = Check("X02", "model_checking", tier)
    rnd = random.Random(ck.seed)
    fx = Fx()
    dbg("fixtures ready")
    if replay:
        data = json.load(open(replay))["data"]
        with MemoDynsys(), CacheRecorder() as rec:
            bad = replay_one(fx, rec, data)
        if bad:
            print(f"VIOLATION property=X02 replay={replay}")
            return 1
        return 0

    run(ck, rnd, fx, set(filter(None, os.environ.get("X02_ONLY", "").split(","))))     # X02_ONLY: development aid
    return ck.finish()


def run(ck: Check, rnd, fx, only):
    """All object worlds (only = empty) or the named ones; reports through `ck` (C20 runs the libration-point worlds this way:
    the libration point is one of the objects its statement names)."""
    q = ck.quick
    t = ck.tier
    wd = workdir("x02")
    dm = {"DictMode": live_dictmode()}
    ck.part("make_key_x02", dict_mode=dm["DictMode"])
    want = lambda n: not only or n in only
    from concurrent.futures import ThreadPoolExecutor
    with MemoDynsys(), CacheRecorder() as rec, ThreadPoolExecutor(max_workers=6) as pool:
        plans = []
        if want("family"):
            plans.append(Plan(pool, FamilyWorld(fx, rec, wd), wd, mcspec="MCFamilyObject.tla", probe_spec="MCFamilyProbe.tla",
                              repaired=f"FamilyObject.repaired.{t}.cfg", asis=f"FamilyObject.asis.{t}.cfg",
                              viol=["FamilyObject.viol.cfg"], probe=f"FamilyProbe.asis.{t}.cfg", budget=300 if q else 4000, flags0=dm,
                              persist="FamilyProbe.persist.cfg"))
        if want("torus"):
            plans.append(Plan(pool, TorusWorld(fx, rec, wd), wd, mcspec="MCTorusObject.tla", probe_spec="MCTorusProbe.tla",
                              repaired="TorusObject.repaired.cfg", asis=f"TorusObject.asis.{t}.cfg", viol=["TorusObject.viol.cfg"],
                              probe=f"TorusProbe.asis.{t}.cfg", budget=300 if q else 2000, flags0=dm))
        pw = None
        if want("point"):
            pw = PointWorld(fx, rec, wd, "L1")
            plans.append(Plan(pool, pw, wd, mcspec="MCPointObject.tla", probe_spec="MCPointProbe.tla",
                              repaired=f"PointObject.repaired.{t}.cfg", asis=f"PointObject.asis.{t}.cfg",
                              viol=[f"PointObject.viol.{t}.cfg", "PointObject.violopts.cfg"],
                              probe=f"PointProbe.ham.{t}.cfg", budget=400 if q else 5000, flags0=dm))
        if want("l3"):
            # L3: the point at which the OPTIONS are observable through the stability results (no Hamiltonians there)
            plans.append(Plan(pool, PointWorld(fx, rec, wd, "L3"), wd, mcspec="MCPointObject.tla", probe_spec="MCPointProbe.tla",
                              repaired="PointObject.repaired.opts.cfg", asis=f"PointObject.lin.{t}.cfg",
                              viol=["PointObject.viollin.cfg", "PointObject.violopts.cfg"],
                              probe=f"PointProbe.lin.{t}.cfg", budget=300 if q else 3000, flags0=dm, persist="PointProbe.persist.cfg"))
        if want("tri"):
            plans.append(Plan(pool, PointWorld(fx, rec, wd, "L4"), wd, mcspec="MCPointObject.tla", probe_spec="MCPointProbe.tla",
                              repaired="PointObject.repaired.tri.cfg", asis=f"PointObject.tri.{t}.cfg",
                              viol=["PointObject.violtri.cfg"], probe=f"PointProbe.tri.{t}.cfg", budget=200 if q else 2000, flags0=dm,
                              persist="PointProbe.persisttri.cfg"))
        dbg("TLC runs started")
        if pw is not None:
            warm_up(pw)
            dbg("normal forms compiled")
        for plan in plans:
            run_object(ck, plan, rnd)

    ck.cov["rule"] = (ck.cov.get("rule") or "") + (" || " if ck.cov.get("rule") else "") + ("per object: one shortest history per distinct state of the TLC model of the working tree (VIEW without the "
                      "history; sampled down to a budget, seeded by VERIF_SEED), every writer out of every core state followed by "
                      "the whole read battery (probe modules, never sampled), and one shortest history per class of state in which "
                      "TLC finds a requirement invariant false; every step of every history is compared with a fresh twin; "
                      "non-trivial = history of >= 3 operations")
    ck.cov["exhaustive"] = True
    ck.assumptions += [
        "logical state of a family = per member (period version, propagation settings its trajectory stands for) + constructor "
        "variant; of a libration point = (eigen-decomposition options, config, points instantiated in the System); of a torus = "
        "(orbit version, parameters and orbit version of the last compute)",
        "the member orbits / generating orbit themselves are specified in OrbitObject.tla (C20); only period, trajectory and the "
        "propagate cache take part here",
        "stamps are hashes of the exact bytes; fresh twins were bit-reproducible in this process (re-checked on a sample)",
        "while histories run, the CR3BP vector-field factories are memoised by (mu, name) (record.MemoDynsys); service caches are untouched",
        "option/config attributes are observed through the private attributes (the public getters materialise defaults)",
    ]


def live_dictmode():
    """which make_key variant the working tree implements (ServiceCache.tla DictMode)"""
    from hiten.algorithms.types.services.base import _CacheServiceBase
    c = _CacheServiceBase()
    return "items" if c.make_key({"a": 1}) != c.make_key({"a": 2}) else "keys"


def warm_up(pw: PointWorld):
    """compile the normal-form kernels once (degree 2 and 3) so that per-history costs are milliseconds"""
    h = pw.new_real()
    for d in pw.DEG:
        out = pw.do(h, "Hamiltonian", [d, "center_manifold_real"])
        if out[0] != "val":
            raise MachineryError(f"normal form of degree {d} failed on a fresh point: {out}")


if __name__ == "__main__":
    sys.exit(main())
