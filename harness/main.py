"""Entry point: ./check <ID> [--tier quick|thorough] [--replay FILE].

The check itself runs in a WORKER sub-process; this process only supervises it.  The code under check must RETURN: a
numba loop that never ends holds the GIL and cannot be interrupted from inside the process (three runs against seeded
changes spun for hours), so the supervisor enforces a budget from outside.  A quick tier takes 1-4 minutes and a
thorough tier at most ~1 h on this machine; the budgets are 1 h / 12 h (HITEN_VERIF_WATCHDOG_S overrides).  On expiry
the worker's Python stack is dumped (faulthandler, SIGUSR1), the worker's process group is killed and the run is
reported as  VIOLATION ... key=nontermination  (exit 1).
"""
import argparse
import importlib
import json
import os
import signal
import subprocess
import sys
import time
import traceback

sys.path.insert(0, os.path.dirname(os.path.abspath(__file__)))


def worker(a):
    import faulthandler
    faulthandler.register(signal.SIGUSR1, all_threads=True, chain=False)
    os.environ["VERIF_TIER"] = a.tier
    import common
    cov = None
    if os.environ.get("VERIF_APICOV"):
        # analysis aid (tools/apicov.py): which Python-level functions of the library does this check execute?
        import coverage
        cov = coverage.Coverage(source=[str(common.REPO / "src" / "hiten")], data_file=None, config_file=False)
        cov.start()
    try:
        mod = importlib.import_module(a.pid.lower())
        rc = mod.main(tier=a.tier, replay=a.replay)
    except common.MachineryError as ex:
        print(f"MACHINERY-FAILURE property={a.pid}: {ex}", file=sys.stderr)
        rc = 2
    except Exception:
        traceback.print_exc()
        print(f"MACHINERY-FAILURE property={a.pid}: unexpected exception", file=sys.stderr)
        rc = 2
    if cov is not None:
        cov.stop()
        cov.json_report(outfile=os.environ["VERIF_APICOV"], show_contexts=False)
    sys.stdout.flush()
    sys.exit(rc)


def supervise(a, argv):
    budget = float(os.environ.get("HITEN_VERIF_WATCHDOG_S", 3600 if a.tier == "quick" else 12 * 3600))
    p = subprocess.Popen([sys.executable, os.path.abspath(__file__), "--worker"] + argv, start_new_session=True)

    def forward(sig, _frame):           # Ctrl-C / kill of the supervisor takes the worker (and its TLC children) along
        try:
            os.killpg(p.pid, signal.SIGKILL)
        except Exception:  # noqa
            pass
        sys.exit(130)
    signal.signal(signal.SIGINT, forward)
    signal.signal(signal.SIGTERM, forward)
    verif = os.path.dirname(os.path.dirname(os.path.abspath(__file__)))

    def sweep():                        # scratch directory of the worker (left behind when it is killed or fails)
        import shutil
        if not os.environ.get("VERIF_KEEP_WORK"):
            shutil.rmtree(os.path.join(verif, ".work", f"p{p.pid}"), ignore_errors=True)
    try:
        rc = p.wait(timeout=budget)
        sweep()
        sys.exit(rc if rc >= 0 else 2)
    except subprocess.TimeoutExpired:
        pass
    try:
        os.kill(p.pid, signal.SIGUSR1)              # Python stack of the stuck worker on stderr
        time.sleep(2.0)
    except Exception:  # noqa
        pass
    try:
        os.killpg(p.pid, signal.SIGKILL)
    except Exception:  # noqa
        pass
    sweep()
    os.makedirs(os.path.join(verif, "replays"), exist_ok=True)
    path = os.path.join(verif, "replays", f"{a.pid}-nontermination.json")
    with open(path, "w") as f:
        json.dump({"property": a.pid, "key": "nontermination", "tier": a.tier, "budget_s": budget,
                   "written": time.strftime("%Y-%m-%dT%H:%M:%S"),
                   "message": "the check did not finish within its watchdog budget; the Python stack of the worker at expiry "
                              "was printed on stderr (the innermost frame is the library call that does not return)"}, f, indent=1)
    print(f"VIOLATION property={a.pid} replay={path}", flush=True)
    print(f"  key=nontermination :: {a.pid} {a.tier} still running after {budget:.0f} s (normal: minutes)", flush=True)
    sys.exit(1)


def main():
    ap = argparse.ArgumentParser()
    ap.add_argument("pid")
    ap.add_argument("--tier", default=os.environ.get("VERIF_TIER", "quick"))
    ap.add_argument("--replay", default=None)
    ap.add_argument("--worker", action="store_true")
    argv = [x for x in sys.argv[1:] if x != "--worker"]
    a = ap.parse_args()
    if a.worker:
        worker(a)
    else:
        supervise(a, argv)


if __name__ == "__main__":
    main()
