"""Entry point: ./check <ID> [--tier quick|thorough] [--replay FILE]."""
import argparse
import importlib
import os
import sys
import traceback

sys.path.insert(0, os.path.dirname(os.path.abspath(__file__)))


def main():
    ap = argparse.ArgumentParser()
    ap.add_argument("pid")
    ap.add_argument("--tier", default=os.environ.get("VERIF_TIER", "quick"))
    ap.add_argument("--replay", default=None)
    a = ap.parse_args()
    os.environ["VERIF_TIER"] = a.tier
    import common
    try:
        mod = importlib.import_module(a.pid.lower())
        rc = mod.main(tier=a.tier, replay=a.replay)
    except common.MachineryError as ex:
        print(f"MACHINERY-FAILURE property={a.pid}: {ex}", file=sys.stderr)
        rc = 2
    except Exception:
        traceback.print_exc()
        print(f"MACHINERY-FAILURE property={a.pid}: unexpected exception", file=sys.stderr)
        rc = 2
    sys.stdout.flush()
    sys.exit(rc)


if __name__ == "__main__":
    main()
