"""Entry point: ./check <ID> [--tier quick|thorough] [--replay FILE]."""
import argparse
import importlib
import os
import sys
import traceback

sys.path.insert(0, os.path.dirname(os.path.abspath(__file__)))


def main():
    ap = argparse.ArgumentParser()
    ap.add_argument("pid")
    ap.add_argument("--tier", default=os.environ.get("VERIF_TIER", "quick"))
    ap.add_argument("--replay", default=None)
    a = ap.parse_args()
    os.environ["VERIF_TIER"] = a.tier
    import common
    # Watchdog: the code under check must RETURN.  A quick tier takes 1-4 minutes and a thorough tier at most ~1 h on this
    # machine; if the process is still running 15-60 times later, the library call it is stuck in (numba loops cannot be
    # interrupted from Python) is reported as non-termination instead of hanging the caller forever.
    budget = float(os.environ.get("HITEN_VERIF_WATCHDOG_S", 3600 if a.tier == "quick" else 12 * 3600))

    def expired():
        import faulthandler
        import json
        import time
        faulthandler.dump_traceback(file=sys.stderr, all_threads=True)
        common.REPLAYS.mkdir(exist_ok=True)
        path = common.REPLAYS / f"{a.pid}-nontermination.json"
        path.write_text(json.dumps({"property": a.pid, "key": "nontermination", "tier": a.tier, "budget_s": budget,
                                    "written": time.strftime("%Y-%m-%dT%H:%M:%S"),
                                    "message": "the check did not finish within its watchdog budget; the Python stack at "
                                               "expiry was printed on stderr"}, indent=1))
        print(f"VIOLATION property={a.pid} replay={path}", flush=True)
        print(f"  key=nontermination :: {a.pid} {a.tier} still running after {budget:.0f} s (normal: minutes)", flush=True)
        try:
            import subprocess
            subprocess.run(["pkill", "-P", str(os.getpid())], timeout=10)      # TLC children
        except Exception:  # noqa
            pass
        os._exit(1)
    import threading
    wd = threading.Timer(budget, expired)
    wd.daemon = True
    wd.start()
    try:
        mod = importlib.import_module(a.pid.lower())
        rc = mod.main(tier=a.tier, replay=a.replay)
    except common.MachineryError as ex:
        print(f"MACHINERY-FAILURE property={a.pid}: {ex}", file=sys.stderr)
        rc = 2
    except Exception:
        traceback.print_exc()
        print(f"MACHINERY-FAILURE property={a.pid}: unexpected exception", file=sys.stderr)
        rc = 2
    sys.stdout.flush()
    sys.exit(rc)


if __name__ == "__main__":
    main()
