"""C16 add-on: "over long integrations the energy error stays bounded instead of drifting" as a TLC-validated contract
(Contracts.tla), on the plain path AND on the event-enabled path (an event that never fires) of the public symplectic
integrator, for a non-separable polynomial Hamiltonian.

Observables per (path, order):
   energy_growth  = max|E - E0| over the last quarter / max|E - E0| over the first quarter    bound 4 (flat: ~1)
   energy_error   = max|E - E0| / |E0| over the whole run                                      bound 1e-2
   event_matches_plain = max|states_event - states_plain|                                      bound 1e-9 (observed 0)
"""
from __future__ import annotations

import numpy as np

from common import Check, ContractSet


def run(ck: Check):
    import numba
    from numba import types
    from numba.typed import List
    import hiten.algorithms.integrators.symplectic as sy
    from hiten.algorithms.dynamics.hamiltonian import create_hamiltonian_system
    from hiten.algorithms.polynomial.base import _create_encode_dict_from_clmo, _init_index_tables
    from hiten.algorithms.polynomial.operations import _polynomial_evaluate
    from hiten.algorithms.types.configs import EventConfig
    from hiten.algorithms.types.options import EventOptions
    import polyutil as pu
    N = 4
    psi, clmo = _init_index_tables(N)
    enc = _create_encode_dict_from_clmo(clmo)
    H = List()
    for d in range(N + 1):
        H.append(np.zeros(len(pu.enum(d)), dtype=np.complex128))
    def put(k, c):
        ks = [tuple(x) for x in pu.enum(sum(k))]
        H[sum(k)][ks.index(k)] = c
    for k in ((2, 0, 0, 0, 0, 0), (0, 2, 0, 0, 0, 0), (0, 0, 0, 2, 0, 0), (0, 0, 0, 0, 2, 0)):
        put(k, 0.5)
    put((2, 0, 0, 0, 2, 0), 0.2)          # q1^2 p2^2 : non-separable
    put((1, 1, 0, 1, 0, 0), 0.1)          # q1 q2 p1
    ham = create_hamiltonian_system(H, N, psi, clmo, enc, n_dof=3)
    never = numba.njit(types.float64(types.float64, types.float64[:]), cache=False)(lambda t, y: y[0] - 100.0)
    y0 = np.array([0.4, -0.3, 0.0, 0.2, 0.5, 0.0])
    dt, T = 0.02, (300.0 if ck.quick else 1000.0)
    t = np.linspace(0.0, T, int(round(T / dt)) + 1)
    energy = lambda Y: np.array([_polynomial_evaluate(H, y.astype(np.complex128), clmo).real for y in Y[:: max(1, len(Y) // 4000)]])
    cs = ContractSet(ck, "long_time_energy")
    for order in ((2, 4) if ck.quick else (2, 4, 6)):
        plain = np.asarray(sy._ExtendedSymplectic(order=order).integrate(ham, y0.copy(), t).states)
        ev = sy._ExtendedSymplectic(order=order).integrate(ham, y0.copy(), t, event_fn=never,
                                                           event_cfg=EventConfig(direction=0, terminal=True),
                                                           event_options=EventOptions(xtol=1e-10, gtol=1e-12))
        evs = np.asarray(ev.states)
        for path, Y in (("plain", plain), ("event-never-fires", evs)):
            label = f"order={order}|{path}"
            tr = cs.trace(label, {"energy_growth": 6, "energy_error": -20}, {"order": order, "path": path})
            ck.count(("long-energy", label), True)
            E = energy(Y)
            dE = np.abs(E - E[0])
            q = len(dE) // 4
            cs.obs(tr, "energy_growth", float(np.max(dE[-q:]) / max(np.max(dE[1:q]), 1e-300)))
            cs.obs(tr, "energy_error", float(np.max(dE) / abs(E[0])))
            if len(ck.cov["samples"]) < 12:
                ck.sample({"long_run": label, "steps": len(Y) - 1, "energy_error_first_quarter": float(np.max(dE[1:q])),
                           "energy_error_last_quarter": float(np.max(dE[-q:]))})
        tr = cs.trace(f"order={order}|event-vs-plain", {"event_matches_plain": -90}, {"order": order, "path": "event-vs-plain"})
        cs.obs(tr, "event_matches_plain", float(np.max(np.abs(evs - plain))) if evs.shape == plain.shape else 1.0)
    # "every polynomial Hamiltonian": one with a LINEAR part (not an expansion about an equilibrium).  H = (q1^2 + p1^2)/2
    # + (q2^2 + p2^2) + b1 q1 + b2 p2: two shifted harmonic oscillators, exact flow known; the scheme must converge to it.
    H1 = List()
    for d in range(3):
        H1.append(np.zeros(len(pu.enum(d)), dtype=np.complex128))
    psi2, clmo2 = _init_index_tables(2)
    enc2 = _create_encode_dict_from_clmo(clmo2)

    def put1(k, c):
        ks = [tuple(x) for x in pu.enum(sum(k))]
        H1[sum(k)][ks.index(k)] = c
    b1, b2 = 0.3, -0.2
    for k, c in (((2, 0, 0, 0, 0, 0), 0.5), ((0, 0, 0, 2, 0, 0), 0.5), ((0, 2, 0, 0, 0, 0), 1.0), ((0, 0, 0, 0, 2, 0), 1.0),
                 ((1, 0, 0, 0, 0, 0), b1), ((0, 0, 0, 0, 1, 0), b2)):
        put1(k, c)
    H1[0][0] = 0.7                                  # an energy offset
    ham1 = create_hamiltonian_system(H1, 2, psi2, clmo2, enc2, n_dof=3)
    z0 = np.array([0.4, -0.3, 0.0, 0.2, 0.5, 0.0])

    def exact1(tt):
        # pair 1: q'' = -(q + b1): q + b1 rotates with frequency 1;  pair 2: H = q^2 + p^2 + b2 p: (q, p + b2/2) rotates with frequency 2
        u, v = z0[0] + b1, z0[3]
        a, c = z0[1], z0[4] + b2 / 2
        return np.column_stack([u * np.cos(tt) + v * np.sin(tt) - b1, a * np.cos(2 * tt) + c * np.sin(2 * tt), 0 * tt,
                                -u * np.sin(tt) + v * np.cos(tt), -a * np.sin(2 * tt) + c * np.cos(2 * tt) - b2 / 2, 0 * tt])
    for order in ((2, 4) if ck.quick else (2, 4, 6, 8)):
        errs = []
        for dtt in (0.02, 0.01):
            tt = np.linspace(0.0, 10.0, int(round(10.0 / dtt)) + 1)
            Y = np.asarray(sy._ExtendedSymplectic(order=order).integrate(ham1, z0.copy(), tt).states)
            errs.append(float(np.max(np.abs(Y - exact1(tt)))))
        tr = cs.trace(f"order={order}|linear-terms", {"error_vs_exact_flow": -10},
                      {"order": order, "path": "hamiltonian-with-linear-terms"})
        ck.count(("linear-terms", order), True)
        # observed 2e-4 .. 2e-3 (the default coupling omega = (20 dt)^-order grows as dt shrinks, so the error is NOT monotone in dt
        # through the public integrator; convergence at FIXED omega is decided by the TaoOrder model); a vector field that ignores
        # the linear part is off by O(|b|) = 0.5
        cs.obs(tr, "error_vs_exact_flow", max(errs))
        if len(ck.cov["samples"]) < 16:
            ck.sample({"linear_terms_case": f"order={order}", "error_dt=0.02": errs[0], "error_dt=0.01": errs[1]})
    # the step is the scheme's map for every step size AND every epoch: the Hamiltonian is autonomous, so the same grid shifted to a
    # large clock value (t0 = 1000, 2000; a long run continued in short chunks) must give the same states
    for order in ((2, 4) if ck.quick else (2, 4, 6)):
        for nst, hh in ((1, 5e-3), (10, 4e-3)):
            g0 = np.arange(nst + 1) * hh
            ref = np.asarray(sy._ExtendedSymplectic(order=order).integrate(ham, y0.copy(), g0).states)
            worst = 0.0
            for T0 in (1000.0, 2000.0):
                sh = np.asarray(sy._ExtendedSymplectic(order=order).integrate(ham, y0.copy(), T0 + g0).states)
                worst = max(worst, float(np.max(np.abs(sh - ref))) if sh.shape == ref.shape else 1.0)
            tr = cs.trace(f"order={order}|epoch-shift|steps={nst}", {"epoch_independence": -80, "state_advances": -100},
                          {"order": order, "path": "epoch-shift"})
            ck.count(("epoch-shift", order, nst), True)
            cs.obs(tr, "epoch_independence", worst)                 # rounding of (T0 + k h) - (T0 + (k-1) h): ~1e-13 * |f|
            cs.obs(tr, "state_advances", 0.0 if float(np.max(np.abs(ref[-1] - y0))) > 1e-4 else 1.0)
    cs.decide(key_fn=lambda tr, n: f"_ExtendedSymplectic|{tr['data']['path']}|{n}")
    cs.selftest()
