"""C16 add-on: "over long integrations the energy error stays bounded instead of drifting" as a TLC-validated contract
(Contracts.tla), on the plain path AND on the event-enabled path (an event that never fires) of the public symplectic
integrator, for a non-separable polynomial Hamiltonian.

Observables per (path, order):
   energy_growth  = max|E - E0| over the last quarter / max|E - E0| over the first quarter    bound 4 (flat: ~1)
   energy_error   = max|E - E0| / |E0| over the whole run                                      bound 1e-2
   event_matches_plain = max|states_event - states_plain|                                      bound 1e-9 (observed 0)
"""
from __future__ import annotations

import numpy as np

from common import Check, ContractSet


def run(ck: Check):
    import numba
    from numba import types
    from numba.typed import List
    import hiten.algorithms.integrators.symplectic as sy
    from hiten.algorithms.dynamics.hamiltonian import create_hamiltonian_system
    from hiten.algorithms.polynomial.base import _create_encode_dict_from_clmo, _init_index_tables
    from hiten.algorithms.polynomial.operations import _polynomial_evaluate
    from hiten.algorithms.types.configs import EventConfig
    from hiten.algorithms.types.options import EventOptions
    import polyutil as pu
    N = 4
    psi, clmo = _init_index_tables(N)
    enc = _create_encode_dict_from_clmo(clmo)
    H = List()
    for d in range(N + 1):
        H.append(np.zeros(len(pu.enum(d)), dtype=np.complex128))
    def put(k, c):
        ks = [tuple(x) for x in pu.enum(sum(k))]
        H[sum(k)][ks.index(k)] = c
    for k in ((2, 0, 0, 0, 0, 0), (0, 2, 0, 0, 0, 0), (0, 0, 0, 2, 0, 0), (0, 0, 0, 0, 2, 0)):
        put(k, 0.5)
    put((2, 0, 0, 0, 2, 0), 0.2)          # q1^2 p2^2 : non-separable
    put((1, 1, 0, 1, 0, 0), 0.1)          # q1 q2 p1
    ham = create_hamiltonian_system(H, N, psi, clmo, enc, n_dof=3)
    never = numba.njit(types.float64(types.float64, types.float64[:]), cache=False)(lambda t, y: y[0] - 100.0)
    y0 = np.array([0.4, -0.3, 0.0, 0.2, 0.5, 0.0])
    dt, T = 0.02, (300.0 if ck.quick else 1000.0)
    t = np.linspace(0.0, T, int(round(T / dt)) + 1)
    energy = lambda Y: np.array([_polynomial_evaluate(H, y.astype(np.complex128), clmo).real for y in Y[:: max(1, len(Y) // 4000)]])
    cs = ContractSet(ck, "long_time_energy")
    for order in ((2, 4) if ck.quick else (2, 4, 6)):
        plain = np.asarray(sy._ExtendedSymplectic(order=order).integrate(ham, y0.copy(), t).states)
        ev = sy._ExtendedSymplectic(order=order).integrate(ham, y0.copy(), t, event_fn=never,
                                                           event_cfg=EventConfig(direction=0, terminal=True),
                                                           event_options=EventOptions(xtol=1e-10, gtol=1e-12))
        evs = np.asarray(ev.states)
        for path, Y in (("plain", plain), ("event-never-fires", evs)):
            label = f"order={order}|{path}"
            tr = cs.trace(label, {"energy_growth": 6, "energy_error": -20}, {"order": order, "path": path})
            ck.count(("long-energy", label), True)
            E = energy(Y)
            dE = np.abs(E - E[0])
            q = len(dE) // 4
            cs.obs(tr, "energy_growth", float(np.max(dE[-q:]) / max(np.max(dE[1:q]), 1e-300)))
            cs.obs(tr, "energy_error", float(np.max(dE) / abs(E[0])))
            if len(ck.cov["samples"]) < 12:
                ck.sample({"long_run": label, "steps": len(Y) - 1, "energy_error_first_quarter": float(np.max(dE[1:q])),
                           "energy_error_last_quarter": float(np.max(dE[-q:]))})
        tr = cs.trace(f"order={order}|event-vs-plain", {"event_matches_plain": -90}, {"order": order, "path": "event-vs-plain"})
        cs.obs(tr, "event_matches_plain", float(np.max(np.abs(evs - plain))) if evs.shape == plain.shape else 1.0)
    cs.decide(key_fn=lambda tr, n: f"_ExtendedSymplectic|{tr['data']['path']}|{n}")
    cs.selftest()
