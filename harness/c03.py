"""C03 -- the state-transition matrix is the derivative of the flow and is symplectic.

The analytic core is decided under C01: the variational right-hand side is (J Phi, F) bit for bit and
J = dF/dx exactly, hence the STM solves the true variational equation.  What remains is whether the
*driver* (_compute_stm, direction plumbing, orbit.monodromy) integrates that system the way the state is
integrated.  That is a contract between library components:

[T] Contracts.tla over TLC-enumerated configurations (spec/objects/StmConfigs.tla: system x method x order
    x duration x planar/spatial x direction), observables
      symplectic   |Phi^T W Phi - W|     (W = CR3BP two-form in (x, v) coordinates)
      det          |det Phi - 1|
      tangent      |Phi(t) f(x0) - f(x(t))|     (the flow direction is mapped to itself; no differencing)
      fd_column    |Phi e_j - (phi(x0 + h e_j) - phi(x0 - h e_j)) / 2h|   two-point form, all six columns,
                   flow computed with a different integrator family than the STM
      state_track  the state block of the variational solution equals the plain propagation of the state
      monodromy_fixes_velocity   |M f(x0) - f(x0)| for corrected periodic orbits
[M] spec/kernels/NuPairing.tla (stability-index pairing over all orderings of a symbolic spectrum) is a
    growth item beyond the wording of C03; its result is reported as an observation only.
"""
from __future__ import annotations

import itertools
import json
import math
import random
import sys

import numpy as np

from common import SPEC, Check, ContractSet, MachineryError, tlc

A = np.array([[0, -1, 0], [1, 0, 0], [0, 0, 0]], dtype=float)
T = np.block([[np.eye(3), np.zeros((3, 3))], [A, np.eye(3)]])            # (x, v) -> (x, p),  p = v + (-y, x, 0)
Jc = np.block([[np.zeros((3, 3)), np.eye(3)], [-np.eye(3), np.zeros((3, 3))]])
W = T.T @ Jc @ T


def stm_case(ck, cs, system, cfg):
    from hiten.algorithms.dynamics.base import _propagate_dynsys
    from hiten.algorithms.dynamics.rtbp import _compute_stm
    x0 = np.array(cfg["ic"], dtype=float)
    tf, fwd = cfg["tf"], cfg["forward"]
    label = "|".join(f"{k}={cfg[k]}" for k in ("system", "method", "order", "tf", "kind", "forward"))
    loose = cfg["method"] == "fixed" and cfg["order"] == 4
    bounds = {"symplectic": -50 if loose else -70, "det": -50 if loose else -70, "tangent": -40 if loose else -60,
              "fd_column": -35 if loose else -45, "state_track": -50 if loose else -80}
    t = cs.trace(label, bounds, cfg)
    ck.count(("stm", label), True)
    kw = {} if cfg["method"] != "adaptive" else {"rtol": 1e-12, "atol": 1e-12}
    xs, times, Phi, PHI = _compute_stm(system.var_dynsys, x0, tf, steps=cfg["steps"], forward=fwd, method=cfg["method"],
                                       order=cfg["order"], **kw)
    scale = max(1.0, float(np.max(np.abs(Phi))))
    cs.obs(t, "symplectic", float(np.max(np.abs(Phi.T @ W @ Phi - W))) / scale ** 2)
    cs.obs(t, "det", abs(np.linalg.det(Phi) - 1.0))
    f = lambda s: np.asarray(system.dynsys.rhs(0.0, np.asarray(s, dtype=float)))
    # the flow direction: for a backward propagation the flow is that of -f, which maps -f(x0) to -f(x(t))
    cs.obs(t, "tangent", float(np.max(np.abs(Phi @ f(x0) - f(xs[-1])))) / scale)
    # plain propagation of the state with the other integrator family
    other = ("adaptive", 8, {"rtol": 1e-13, "atol": 1e-13}) if cfg["method"] == "fixed" else ("fixed", 8, {})
    steps_o = 2 if other[0] == "adaptive" else max(2000, cfg["steps"])

    def flow(y0):
        sol = _propagate_dynsys(system.dynsys, y0, 0.0, tf, forward=fwd, steps=steps_o, method=other[0], order=other[1], **other[2])
        return np.asarray(sol.states[-1], dtype=float)
    cs.obs(t, "state_track", float(np.max(np.abs(flow(x0) - xs[-1]))))
    h = 1e-6
    worst = 0.0
    for j in range(6):
        e = np.zeros(6)
        e[j] = h
        col = (flow(x0 + e) - flow(x0 - e)) / (2 * h)
        worst = max(worst, float(np.max(np.abs(col - Phi[:, j]))))
    cs.obs(t, "fd_column", worst / scale)
    if len(ck.cov["samples"]) < 3:
        ck.sample({"config": cfg, "observables": {e["name"]: e["value"] for e in t["ev"]}})
    return t


def nu_observation(ck):
    """Growth beyond C03's wording: the stability-index pairing model (NuPairing.tla, as found) is replayed into the real
    _compute_nu_from_eigvals for every ordering the caller can produce; order dependence is reported as an observation."""
    import re
    from hiten.algorithms.linalg.backend import _LinalgBackend
    r = tlc(SPEC / "kernels" / "NuPairing.tla", SPEC / "cfg" / "NuPairing.cfg", timeout=300)
    ck.model("NuPairing", r)
    rq = tlc(SPEC / "kernels" / "NuPairing.tla", SPEC / "cfg" / "NuPairing.req.cfg", timeout=300)
    rows = re.findall(r'<<"NU", <<(.*?)>>, <<(.*?)>>>>', r.out)
    val = {"L": 3.0, "l": 1 / 3.0, "A": 1.0, "B": 1.0, "u": complex(math.cos(0.7), math.sin(0.7)), "v": complex(math.cos(0.7), -math.sin(0.7))}
    be = _LinalgBackend() if callable(_LinalgBackend) else None
    agree = nan_orders = 0
    for o, rep in rows:
        order = [x.strip().strip('"') for x in o.split(",")]
        exp = [x.strip().strip('"') for x in rep.split(",")]
        nu = be._compute_nu_from_eigvals(np.array([val[x] for x in order], dtype=complex), 1e-8)
        got_nan = [bool(np.isnan(v)) for v in np.asarray(nu)]
        agree += int(got_nan == [e == "nan" for e in exp])
        nan_orders += int(any(got_nan))
    ck.part("nu_pairing_observation", orderings=len(rows), code_agrees_with_as_found_model=agree, orderings_with_nan_index=nan_orders,
            requirement_holds_in_model=bool(rq.ok))
    if nan_orders:
        ck.notes.append(f"observation (outside C03's wording): stability indices depend on the order of the unit-modulus eigenvalues; "
                        f"{nan_orders} of {len(rows)} reachable orderings yield a NaN index (NuPairing.tla)")


def main(tier=None, replay=None):
    ck = Check("C03", "exploration", tier)
    rnd = random.Random(ck.seed)
    from hiten import System
    if replay:
        d = json.load(open(replay))["data"]
        print(json.dumps(d, indent=1, default=str)[:3000])
        print("re-run ./check C03 to re-evaluate (cases are deterministic)")
        return 0
    r = tlc(SPEC / "objects" / "MCStmConfigs.tla", SPEC / "cfg" / ("StmConfigs.quick.cfg" if ck.quick else "StmConfigs.thorough.cfg"), timeout=600)
    ck.model("StmConfigs." + ck.tier, r)
    cfgs = r.printed()
    if len(cfgs) < 8:
        raise MachineryError("StmConfigs emitted too few configurations")
    systems = {}
    # initial states away from both primaries for every mu (near the triangular region): no close approach within tf
    ics_of = lambda mu: {"planar": [0.55 - mu, 0.7, 0.0, 0.05, -0.1, 0.0], "spatial": [0.55 - mu, 0.7, 0.08, 0.05, -0.1, 0.07]}
    cs = ContractSet(ck, "stm_contracts")
    for c in sorted(cfgs, key=lambda c: json.dumps(c, sort_keys=True)):
        name = c["system"]
        if name not in systems:
            systems[name] = System.from_bodies(*name.split("-")) if "-" in name else System.from_mu(1.0 / int(name[2:]))
        cfg = dict(c, ic=ics_of(float(systems[name].mu))[c["kind"]], tf=c["tf10"] / 10.0, steps={"fixed": 4000, "adaptive": 200}[c["method"]])
        stm_case(ck, cs, systems[name], cfg)

    # short spans on the default dense output grid (2000 nodes): "for every initial state and time span".  Over tf = 1.5e-5 the STM is
    # I + A tf + O(tf^2) with A the (C01-verified) Jacobian of the field at x0; an implementation that answers "nearly zero" spans
    # without integrating returns I.  Both directions, every method family; a state near the secondary makes |A| large.
    from hiten.algorithms.dynamics.rtbp import _compute_stm, _jacobian_crtbp
    em0 = systems.get("earth-moon") or System.from_bodies("earth", "moon")
    mu0 = float(em0.mu)
    for (method, order), fwd, (kind, x0) in itertools.product((("adaptive", 8), ("fixed", 8), ("adaptive", 5)), (1, -1),
                                                              (("near-secondary", [1 - mu0 + 0.03, 0.0, 0.01, 0.0, 0.2, 0.0]),
                                                               ("generic", ics_of(mu0)["spatial"]))):
        tf = 1.5e-5
        x0 = np.array(x0, dtype=float)
        A = np.asarray(_jacobian_crtbp(x0[0], x0[1], x0[2], mu0), dtype=float)
        kw = {"rtol": 1e-12, "atol": 1e-12} if method == "adaptive" else {}
        label = f"earth-moon|{method}{order}|tf={tf:g}|default-steps|{kind}|forward={fwd}"
        t = cs.trace(label, {"short_span_stm": -15, "short_span_state": -15}, {"forward": fwd, "part": "short-span"})
        ck.count(("stm-short-span", label), True)
        xs, times, Phi, PHI = _compute_stm(em0.var_dynsys, x0, tf, forward=fwd, method=method, order=order, **kw)
        lin = fwd * tf * A
        cs.obs(t, "short_span_stm", float(np.max(np.abs(Phi - np.eye(6) - lin))) / float(np.max(np.abs(lin))))
        f0 = np.asarray(em0.dynsys.rhs(0.0, x0), dtype=float)
        cs.obs(t, "short_span_state", float(np.max(np.abs(np.asarray(xs[-1], dtype=float) - x0 - fwd * tf * f0))) / float(np.max(np.abs(tf * f0))))
    # periodic orbits: the monodromy maps the velocity vector to itself
    em = systems.get("earth-moon") or System.from_bodies("earth", "moon")
    orbs = [("halo", dict(amplitude_z=0.2, zenith="southern"), 1), ("lyapunov", dict(amplitude_x=4e-3), 1)]
    if not ck.quick:
        orbs += [("halo", dict(amplitude_z=0.1, zenith="northern"), 2), ("lyapunov", dict(amplitude_x=4e-3), 2)]
    if not ck.quick:
        # "every periodic orbit the library can correct": a vertical orbit seeded from the centre manifold (examples/periodic_orbits.py)
        try:
            cmv = em.get_libration_point(1).get_center_manifold(degree=4)
            cmv.compute()
            orbs.append(("vertical", dict(initial_state=[float(v) for v in cmv.to_synodic([0.0, 0.0], 0.6, "q3")]), 1))
        except Exception as ex:  # noqa
            ck.notes.append(f"vertical seed from the centre manifold failed: {ex!r}")
    fixture_failed = []
    for fam, kw, li in orbs:
        L = em.get_libration_point(li)
        orbit = L.create_orbit(fam, **{k: (np.asarray(v, dtype=float) if k == "initial_state" else v) for k, v in kw.items()})
        try:
            orbit.correct()
        except Exception as ex:  # noqa - a fixture orbit that cannot be built is not itself a C03 verdict (see fixture_failed below)
            fixture_failed.append(f"L{li} {fam} {sorted(kw.items())}: correct() raised {ex!r}"[:300])
            continue
        M = np.asarray(orbit.monodromy)
        x0 = np.asarray(orbit.initial_state, dtype=float)
        f0 = np.asarray(em.dynsys.rhs(0.0, x0))
        label = f"earth-moon|L{li}|{fam}|{sorted(kw.items())}"
        t = cs.trace(label, {"monodromy_fixes_velocity": -70, "symplectic": -50, "det": -40, "reciprocal_pairs": -40},
                     {"family": fam, "kw": kw, "L": li})
        ck.count(("monodromy", label), True)
        scale = max(1.0, float(np.max(np.abs(M))))
        cs.obs(t, "monodromy_fixes_velocity", float(np.max(np.abs(M @ f0 - f0))) / scale)
        cs.obs(t, "symplectic", float(np.max(np.abs(M.T @ W @ M - W))) / scale ** 2)
        cs.obs(t, "det", abs(np.linalg.det(M) - 1.0) / scale)
        ev = np.linalg.eigvals(M)
        cs.obs(t, "reciprocal_pairs", max(min(abs(1 / a - b) / max(1.0, abs(1 / a)) for b in ev) for a in ev))
        # the spectrum the OBJECT reports (services/orbits.py compute_stability -> linalg/backend.py) is that of this monodromy
        t2 = cs.trace(label + "|reported-spectrum", {"reported_eigenvalues": -80, "reported_eigenvectors": -60, "reported_indices": -70},
                      {"family": fam, "kw": kw, "L": li, "part": "reported"})
        ck.count(("monodromy-reported", label), True)
        lev = np.asarray(orbit.eigenvalues, dtype=complex).ravel()
        V = np.asarray(orbit.eigenvectors, dtype=complex)
        nus = np.asarray(orbit.stability_indices, dtype=complex).ravel()
        rel = lambda a, b: abs(a - b) / max(1.0, abs(a), abs(b))
        cs.obs(t2, "reported_eigenvalues", max(max(min(rel(a, b) for b in ev) for a in lev), max(min(rel(a, b) for b in lev) for a in ev))
               + (0.0 if len(lev) == 6 else 1.0))
        cs.obs(t2, "reported_eigenvectors", max(float(np.linalg.norm(M @ V[:, i] - lev[i] * V[:, i])) / (max(1.0, abs(lev[i])) * float(np.linalg.norm(V[:, i])))
                                                for i in range(6)) if V.shape == (6, 6) else 1.0)
        cs.obs(t2, "reported_indices", max(min(rel(nu, (a + 1 / a) / 2) for a in ev) for nu in nus) + (0.0 if len(nus) == 3 else 1.0))
    # history: a period preset close to (but not equal to) the true one, then correct(): the orbit must end up with
    # the corrected period and its monodromy must be that of the corrected orbit
    for fam, kw, li in orbs[:2]:
        L = em.get_libration_point(li)
        ref = L.create_orbit(fam, **kw)
        try:
            ref.correct()
            T_true = float(ref.period)
            orbit = L.create_orbit(fam, **kw)
            orbit.period = float(f"{T_true:.5g}")          # a 5-significant-digit tabulated value
            res = orbit.correct()
        except Exception as ex:  # noqa
            fixture_failed.append(f"L{li} {fam} preset-period history: correct() raised {ex!r}"[:300])
            continue
        label = f"earth-moon|L{li}|{fam}|preset-period-then-correct"
        t = cs.trace(label, {"period_is_twice_half_period": -130, "monodromy_fixes_velocity": -70},
                     {"family": fam, "kw": kw, "L": li, "history": "preset-period"})
        ck.count(("monodromy-history", label), True)
        cs.obs(t, "period_is_twice_half_period", abs(float(orbit.period) - 2.0 * float(res.half_period)))
        M = np.asarray(orbit.monodromy)
        x0 = np.asarray(orbit.initial_state, dtype=float)
        f0 = np.asarray(em.dynsys.rhs(0.0, x0))
        cs.obs(t, "monodromy_fixes_velocity", float(np.max(np.abs(M @ f0 - f0))) / max(1.0, float(np.max(np.abs(M)))))
    cs.decide(key_fn=lambda t, n: ("_compute_stm|forward=-1|" + n if (t["data"] or {}).get("forward") == -1
                                   else ("orbit.monodromy|" + n if "family" in (t["data"] or {}) else "_compute_stm|" + n)))
    cs.selftest()
    # The fixture orbits (Earth-Moon L1/L2 halo and Lyapunov from the analytic seeds) correct on the unchanged tree.  When one
    # of them cannot be built the monodromy clause was not evaluated for it: that is decided by the rest of the run - if the STM
    # contracts above already report a violation (a wrong variational system also makes the corrector's Newton steps useless),
    # the verdict is that violation; if nothing else was found the run is inconclusive and says so (exit 2), never a pass.
    if fixture_failed:
        ck.notes += ["monodromy clause not evaluated: " + f for f in fixture_failed]
        ck.part("monodromy_fixtures", failed=len(fixture_failed))
        if not ck.viol:
            raise MachineryError("fixture orbit could not be corrected and no other contract failed: " + fixture_failed[0])
    try:
        nu_observation(ck)
    except Exception as ex:      # an observation must never break the check
        ck.notes.append(f"nu pairing observation skipped: {ex!r}")
    ck.cov["rule"] = ("configurations enumerated by TLC from StmConfigs.tla (system x method x order x duration x planar/spatial "
                      "x direction; only combinations the specification marks valid); one contract trace per configuration, "
                      "plus corrected periodic orbits for the monodromy clause")
    ck.assumptions += ["the analytic clause (the STM solves d/dt Phi = (dF/dx) Phi) rests on C01's exact checks; C03 adds driver-level contracts",
                      "fd_column is a two-point central difference (h = 1e-6) of the library's own flow computed with the other "
                      "integrator family; bound 1e-5 relative (fixed RK4: 1e-4), observed values recorded in the evidence",
                      "agreement with a flow integrated outside the library is not claimed"]
    return ck.finish()


if __name__ == "__main__":
    sys.exit(main())
