"""C02 add-on: the tolerance clause of the property as a [T] contract (Contracts.tla).

"An adaptive integrator returns, at every requested output time (dense output included), a state whose error against
the exact solution is bounded by a modest multiple of the requested tolerances and shrinks with them.  Both hold for
generic vector fields and for polynomial Hamiltonian systems."

Problems with closed-form solutions: a time-dependent forced oscillator (generic rhs; exercises the absolute times used
by the dense-output stages) and a two-frequency polynomial Hamiltonian (Hamiltonian fast path), at amplitudes 1e-3, 1,
1e3, with rtol != atol in both directions, on an output grid much finer than the accepted steps.
Observables:  error_over_tolerance = max_t |y - y_exact| / (atol + rtol max|y_exact|)   bound 300 (observed <= 10)
              shrink_ratio         = error(tol/1000) / error(tol)                        bound 0.1
"""
from __future__ import annotations

import itertools

import numpy as np

from common import Check, ContractSet


def run(ck: Check):
    from numba.typed import List
    from hiten.algorithms.dynamics.hamiltonian import create_hamiltonian_system
    from hiten.algorithms.dynamics.rhs import create_rhs_system
    from hiten.algorithms.integrators.rk import AdaptiveRK
    from hiten.algorithms.polynomial.base import _create_encode_dict_from_clmo, _init_index_tables
    import polyutil as pu

    def forced(t, y):
        return np.array([y[1], -y[0] + 3.0 * np.cos(2.0 * t)])
    sysF = create_rhs_system(forced, 2, "forced oscillator")

    def exactF(t, s):
        A = s + 1.0
        return np.column_stack([A * np.cos(t) - np.cos(2 * t), -A * np.sin(t) + 2 * np.sin(2 * t)])
    psi, clmo = _init_index_tables(2)
    enc = _create_encode_dict_from_clmo(clmo)
    ks = pu.enum(2)
    blk = np.zeros(len(ks), dtype=np.complex128)
    for i, k in enumerate(ks):
        k = tuple(k)
        if k in ((2, 0, 0, 0, 0, 0), (0, 0, 0, 2, 0, 0)):
            blk[i] = 0.5
        if k in ((0, 2, 0, 0, 0, 0), (0, 0, 0, 0, 2, 0)):
            blk[i] = 1.0
    H = List()
    H.append(np.zeros(1, dtype=np.complex128))
    H.append(np.zeros(6, dtype=np.complex128))
    H.append(blk)
    ham = create_hamiltonian_system(H, 2, psi, clmo, enc, n_dof=3)

    def exactH(t, s):
        return np.column_stack([s * np.cos(t), s * np.cos(2 * t), 0 * t, -s * np.sin(t), -s * np.sin(2 * t), 0 * t])
    t = np.linspace(0.0, 10.0, 401)
    cs = ContractSet(ck, "tolerance_contracts")
    tols = [(1e-6, 1e-9), (1e-9, 1e-6)] if ck.quick else [(1e-6, 1e-9), (1e-9, 1e-6), (1e-7, 1e-7), (1e-5, 1e-10)]
    scales = (1e-3, 1e3) if ck.quick else (1e-3, 1.0, 1e3)
    for order, (rtol, atol), scale in itertools.product((5, 8), tols, scales):
        for pname, system, y0, exact in (("forced-generic", sysF, np.array([scale, 0.0]), exactF),
                                         ("hamiltonian", ham, np.array([scale, scale, 0, 0, 0, 0.0]), exactH)):
            label = f"{pname}|order={order}|rtol={rtol:g}|atol={atol:g}|scale={scale:g}"
            tr = cs.trace(label, {"error_over_tolerance": 25, "shrink_ratio": -10}, {"problem": pname, "order": order, "rtol": rtol, "atol": atol, "scale": scale})
            ck.count(("accuracy", label), True)
            ex = exact(t, scale)
            errs = []
            try:
                for f in (1.0, 1e-3):
                    sol = AdaptiveRK(order=order, rtol=rtol * f, atol=atol * f).integrate(system, y0.copy(), t)
                    errs.append(float(np.max(np.abs(np.asarray(sol.states) - ex))))
            except Exception as exn:  # noqa -- smooth problem, default step limits: the integrator must return
                ck.violation(f"AdaptiveRK|{pname}|order={order}|raises:{type(exn).__name__}",
                             f"{label}: {type(exn).__name__}: {str(exn)[:160]}", {"case": label})
                cs.traces.remove(tr)
                continue
            tol_eff = atol + rtol * float(np.max(np.abs(ex)))
            cs.obs(tr, "error_over_tolerance", errs[0] / tol_eff)
            # the tightened run may hit the rounding floor of the amplitude: compare with the larger of the two
            floor = 1e-13 * float(np.max(np.abs(ex)))
            cs.obs(tr, "shrink_ratio", max(errs[1], floor) / max(errs[0], 1e-300))
            if len(ck.cov["samples"]) < 8 and scale != 1.0:
                ck.sample({"accuracy_case": label, "max_error": errs[0], "error_over_tolerance": errs[0] / tol_eff, "error_at_tol_over_1000": errs[1]})
    # components of very different magnitude: the tolerance is per component (atol + rtol |y_i|).  A slow oscillator of amplitude
    # 1e3 next to a fast one (frequency 15) of amplitude 1e-3, relative tolerance dominating: each component's error is measured
    # against ITS OWN scale.
    def two_scale(tq, y):
        return np.array([y[1], -y[0], 15.0 * y[3], -15.0 * y[2]])
    sysT = create_rhs_system(two_scale, 4, "two-scale oscillators")
    tq = np.linspace(0.0, 6.0, 161)
    exT = np.column_stack([1e3 * np.cos(tq), -1e3 * np.sin(tq), 1e-3 * np.cos(15 * tq), -1e-3 * np.sin(15 * tq)])
    for order, rtol in itertools.product((5, 8), (1e-6, 1e-9)):
        atol = 1e-15
        label = f"two-scale-generic|order={order}|rtol={rtol:g}|atol={atol:g}"
        tr = cs.trace(label, {"componentwise_error_over_tolerance": 30}, {"problem": "two-scale-generic", "order": order, "rtol": rtol, "atol": atol, "scale": 0})
        ck.count(("accuracy", label), True)
        try:
            sol = AdaptiveRK(order=order, rtol=rtol, atol=atol).integrate(sysT, np.array([1e3, 0.0, 1e-3, 0.0]), tq)
        except Exception as exn:  # noqa
            ck.violation(f"AdaptiveRK|two-scale-generic|order={order}|raises:{type(exn).__name__}", f"{label}: {str(exn)[:160]}", {"case": label})
            cs.traces.remove(tr)
            continue
        err = np.max(np.abs(np.asarray(sol.states) - exT), axis=0)
        comp = err / (atol + rtol * np.max(np.abs(exT), axis=0))
        cs.obs(tr, "componentwise_error_over_tolerance", float(np.max(comp)))       # observed 12 .. 150 (global error over 6 time units)
        if len(ck.cov["samples"]) < 12:
            ck.sample({"accuracy_case": label, "error_over_own_tolerance_per_component": comp.tolist()})
    cs.decide(key_fn=lambda tr, n: f"AdaptiveRK|{tr['data']['problem']}|order={tr['data']['order']}|{n}")
    cs.selftest()
