"""C19 -- reported connections are geometrically and kinematically what they claim.

Specs: spec/kernels/SegDist.tla   (closest points of two planar segments: exact minimum vs transcription)
       spec/algo/ConnPairing.tla  (radius pairs, mutual nearest, thresholds, refinement: requirement vs transcription)
       spec/trace/ConnPairingTrace.tla (TLC judge of observations recorded from the real backend)

  1. TLC exhaustive: SegDist transcription (with the parallel/degenerate repair) = exact minimum for all
     segment pairs with end points on the grid, laws of the requirement; ConnPairing transcription =>
     requirement for all clouds within the constants.  The transcriptions of the unchanged parallel
     branch ("asis") are run too and the outcome recorded.
  2. every segment pair TLC enumerated is replayed into _closest_points_on_segments_2d and (batched)
     _refine_pairs_on_section; returned parameters are decoded to exact rationals; TLC judges
     "distance at (s,t) = true minimum" exactly.
  3. every cloud pair TLC enumerated is replayed into _ConnectionsBackend.run (radii, velocity labels,
     delta-v limits, ballistic tolerances from the TLC header); results are decoded to integers
     (indices, local segment, rational parameters, threshold flags, ranks) and judged by TLC.
     A share of the runs goes through _ConnectionEngine.solve with a scripted interface.
  4. binding self-test: corrupted observations must be rejected.
"""
from __future__ import annotations

import json
import math
import os
import random
import shutil
import sys
from fractions import Fraction as Fr

import numpy as np

from common import SPEC, VERIF, Check, MachineryError, tlc, workdir

SEG = SPEC / "kernels" / "MCSegDist.tla"
PAIR = SPEC / "algo" / "MCConnPairing.tla"
JUDGE = SPEC / "trace" / "ConnPairingTrace.tla"
CFG = SPEC / "cfg"

PARAM_DEN = 400        # closest-point parameters on the 4x4 grid have denominators <= 324
TOL = 1e-9             # identification of a float with the rational it snaps to / state consistency
VDIR = np.array([2.0, -1.0, 2.0])     # velocity of point k = label[k] * VDIR  (norm 3 |label|)


class Dev:
    param = 0.0
    state = 0.0
    dv = 0.0


def snap(x):
    fr = Fr(float(x)).limit_denominator(PARAM_DEN)
    dev = abs(float(x) - float(fr))
    return fr, dev


def fr2(fr):
    return [fr.numerator, fr.denominator]


# --------------------------------------------------------------------------------------------
# segment kernels
# --------------------------------------------------------------------------------------------

def seg_obs_direct(bk, sg):
    s, t, px, py, qx, qy = bk._closest_points_on_segments_2d(*[float(v) for v in sg])
    fs, d1 = snap(s)
    ft, d2 = snap(t)
    sflag = ""
    if max(d1, d2) > TOL:
        sflag = "parameter-not-a-small-rational"
    else:
        Dev.param = max(Dev.param, d1, d2)
    ex = (sg[0] + float(fs) * (sg[2] - sg[0]), sg[1] + float(fs) * (sg[3] - sg[1]),
          sg[4] + float(ft) * (sg[6] - sg[4]), sg[5] + float(ft) * (sg[7] - sg[5]))
    dv = max(abs(a - b) for a, b in zip(ex, (px, py, qx, qy)))
    if not sflag and dv > TOL:
        sflag = "returned-points-not-at-returned-parameters"
    elif not sflag:
        Dev.state = max(Dev.state, dv)
    if not sflag:
        # closest-point parameters are invariant under a uniform scaling of the plane; powers of two keep the data exact.
        # (section coordinates of real manifolds are O(1e-4): the routine must not depend on the length scale)
        for e in (10, 14, 20, 24):      # down to ~6e-8 of the unit scale: thresholds that mix powers of the length show only there
            sc = 2.0 ** -e
            s2, t2, px2, py2, qx2, qy2 = bk._closest_points_on_segments_2d(*[float(v) * sc for v in sg])
            if max(abs(s2 - s), abs(t2 - t)) > TOL or max(abs(px2 - px * sc), abs(py2 - py * sc), abs(qx2 - qx * sc), abs(qy2 - qy * sc)) > TOL * sc:
                sflag = "closest-points-depend-on-length-scale"
                break
    return ("seg", "_closest_points_on_segments_2d", tuple(sg), (fs.numerator, fs.denominator),
            (ft.numerator, ft.denominator), sflag)


def seg_obs_refine(bk, segs):
    """All segment pairs in ONE call of _refine_pairs_on_section: cloud U = all A end points, cloud S = all B
    end points, nearest-neighbour arrays scripted so that the local segment of point 2k is (2k, 2k+1)."""
    m = len(segs)
    pu = np.empty((2 * m, 2))
    ps = np.empty((2 * m, 2))
    for k, sg in enumerate(segs):
        pu[2 * k] = sg[0:2]
        pu[2 * k + 1] = sg[2:4]
        ps[2 * k] = sg[4:6]
        ps[2 * k + 1] = sg[6:8]
    nn = np.arange(2 * m, dtype=np.int64) ^ 1
    pairs = np.stack([2 * np.arange(m, dtype=np.int64), 2 * np.arange(m, dtype=np.int64)], axis=1)
    rstar, u0, u1, s0, s1, sval, tval, valid = bk._refine_pairs_on_section(pu, ps, pairs, nn, nn)
    out = []
    for k, sg in enumerate(segs):
        fs, d1 = snap(sval[k])
        ft, d2 = snap(tval[k])
        sflag = ""
        if not bool(valid[k]) or (int(u0[k]), int(u1[k]), int(s0[k]), int(s1[k])) != (2 * k, 2 * k + 1, 2 * k, 2 * k + 1):
            sflag = "refinement-flagged-invalid-or-wrong-segment-indices"
        elif max(d1, d2) > TOL:
            sflag = "parameter-not-a-small-rational"
        else:
            Dev.param = max(Dev.param, d1, d2)
            px = sg[0] + float(fs) * (sg[2] - sg[0])
            py = sg[1] + float(fs) * (sg[3] - sg[1])
            qx = sg[4] + float(ft) * (sg[6] - sg[4])
            qy = sg[5] + float(ft) * (sg[7] - sg[5])
            dv = max(abs(float(rstar[k, 0]) - 0.5 * (px + qx)), abs(float(rstar[k, 1]) - 0.5 * (py + qy)))
            if dv > TOL:
                sflag = "meeting-point-not-midpoint-of-the-points-at-returned-parameters"
            else:
                Dev.state = max(Dev.state, dv)
        out.append(("seg", "_refine_pairs_on_section", tuple(sg), (fs.numerator, fs.denominator),
                    (ft.numerator, ft.denominator), sflag))
    return out


# --------------------------------------------------------------------------------------------
# _ConnectionsBackend.run
# --------------------------------------------------------------------------------------------

def build_request(case):
    from hiten.algorithms.connections.types import ConnectionsBackendRequest
    pu = np.asarray(case["pu"], dtype=float).reshape(-1, 2)
    ps = np.asarray(case["ps"], dtype=float).reshape(-1, 2)
    au = case["au"][:len(pu)]
    bs = case["bs"][:len(ps)]
    Xu = np.zeros((len(pu), 6))
    Xs = np.zeros((len(ps), 6))
    Xu[:, 0:2] = pu
    Xs[:, 0:2] = ps
    Xu[:, 2] = np.arange(1, len(pu) + 1)
    Xs[:, 2] = np.arange(1, len(ps) + 1)
    Xu[:, 3:6] = np.outer(np.asarray(au, dtype=float), VDIR)
    Xs[:, 3:6] = np.outer(np.asarray(bs, dtype=float), VDIR)
    tu = np.arange(10, 10 + len(pu))
    tsx = np.arange(20, 20 + len(ps))
    req = ConnectionsBackendRequest(points_u=pu, points_s=ps, states_u=Xu, states_s=Xs, traj_indices_u=tu,
                                    traj_indices_s=tsx, eps=math.sqrt(case["r2"] / 2.0), dv_tol=case["dv2"] / 2.0,
                                    bal_tol=case["bal2"] / 2.0)
    return req, pu, ps, Xu, Xs, au, bs


def decode_side(state, X, i0):
    """(neighbour index 1-based or 0, parameter as Fraction) such that state = (1-s) X[i0] + s X[a]; None if no fit."""
    n = X.shape[0]
    z = float(state[2])
    if n < 2 or z == X[i0, 2]:
        dev = float(np.max(np.abs(np.asarray(state, dtype=float) - X[i0])))
        if dev > TOL:
            return None
        Dev.state = max(Dev.state, dev)
        return 0, Fr(0)
    for a in range(n):
        if a == i0:
            continue
        s = (z - X[i0, 2]) / (X[a, 2] - X[i0, 2])
        fs, d = snap(s)
        if d > TOL or not (0 <= fs <= 1):
            continue
        want = (1.0 - float(fs)) * X[i0] + float(fs) * X[a]
        dev = float(np.max(np.abs(np.asarray(state, dtype=float) - want)))
        if dev <= TOL:
            Dev.param = max(Dev.param, d)
            Dev.state = max(Dev.state, dev)
            return a + 1, fs
    return None


def run_case(bk, case, via_engine=False):
    """One call of the real backend -> integer observation."""
    req, pu, ps, Xu, Xs, au, bs = build_request(case)
    if via_engine:
        results = engine_results(req)
    else:
        results = bk._ConnectionsBackend().run(req).results
    dv_tol, bal_tol = case["dv2"] / 2.0, case["bal2"] / 2.0
    refined = len(pu) >= 2 and len(ps) >= 2
    dvs = sorted({float(r.delta_v) for r in results})
    res = []
    sflag = ""
    for r in results:
        i0, j0 = int(r.index_u), int(r.index_s)
        rec = {"i": i0 + 1, "j": j0 + 1, "iu": 0, "s": [0, 1], "js": 0, "t": [0, 1],
               "dvle": bool(r.delta_v <= dv_tol), "bal": r.kind == "ballistic",
               "ballt": 1 if r.delta_v < bal_tol else (2 if r.delta_v == bal_tol else 0),
               "rank": dvs.index(float(r.delta_v))}
        res.append(rec)
        if r.kind not in ("ballistic", "impulsive"):
            sflag = sflag or "kind-not-ballistic-or-impulsive"
        if not (0 <= i0 < len(pu) and 0 <= j0 < len(ps)):
            continue
        su = np.asarray(r.state_u, dtype=float)
        ss = np.asarray(r.state_s, dtype=float)
        du = decode_side(su, Xu, i0)
        ds = decode_side(ss, Xs, j0)
        if du is None or ds is None:
            sflag = sflag or "reported-state-not-on-local-segment"
        else:
            rec["iu"], rec["s"] = du[0], fr2(du[1])
            rec["js"], rec["t"] = ds[0], fr2(ds[1])
        want = float(np.linalg.norm(su[3:6] - ss[3:6]))
        exact = math.sqrt(float(sum((Fr(float(a)) - Fr(float(b))) ** 2 for a, b in zip(su[3:6], ss[3:6]))))
        dev = abs(float(r.delta_v) - exact) / (1.0 + exact)
        if dev > TOL:
            sflag = sflag or "delta-v-not-norm-of-reported-velocity-difference"
        else:
            Dev.dv = max(Dev.dv, dev, abs(want - exact) / (1.0 + exact))
        if refined:
            mid = 0.5 * (su[0:2] + ss[0:2])
            dev = float(np.max(np.abs(np.asarray(r.point2d, dtype=float) - mid)))
            if dev > TOL:
                sflag = sflag or "meeting-point-not-midpoint-of-reported-points"
            else:
                Dev.state = max(Dev.state, dev)
        if (int(r.trajectory_index_u), int(r.trajectory_index_s)) != (10 + i0, 20 + j0):
            sflag = sflag or "trajectory-index-mislabelled"
    arr = bk._radius_pairs_2d(pu, ps, math.sqrt(case["r2"] / 2.0))
    nnu = (bk._nearest_neighbor_2d(pu) + 1).tolist() if len(pu) >= 2 else [0] * len(pu)
    nns = (bk._nearest_neighbor_2d(ps) + 1).tolist() if len(ps) >= 2 else [0] * len(ps)
    return {"k": "run", "pu": case["pu"], "ps": case["ps"], "r2": case["r2"], "dv2": case["dv2"], "au": list(au),
            "bs": list(bs), "res": res, "sflag": sflag, "arr": (arr + 1).tolist(), "nnu": nnu, "nns": nns}


_engine = None


def engine_results(req):
    """Same request through _ConnectionEngine.solve with a scripted interface (section extraction replaced)."""
    global _engine
    from hiten.algorithms.connections.backends import _ConnectionsBackend
    from hiten.algorithms.connections.engine import _ConnectionEngine
    from hiten.algorithms.connections.interfaces import _ManifoldConnectionInterface
    from hiten.algorithms.connections.types import _ConnectionProblem

    class _Scripted(_ManifoldConnectionInterface):
        script = None

        def to_numeric(self, manifold, config, *, direction=None):
            return self.script[manifold]

        @staticmethod
        def _apply_direction_correction(domain_obj, direction):
            return direction

    if _engine is None:
        itf = _Scripted()
        _engine = (_ConnectionEngine(backend=_ConnectionsBackend(), interface=itf), itf)
    eng, itf = _engine
    itf.script = {"U": (req.points_u, req.states_u, req.traj_indices_u), "S": (req.points_s, req.states_s, req.traj_indices_s)}
    prob = _ConnectionProblem(source="U", target="S", section_axis="x", section_offset=0.0, plane_coords=("y", "z"),
                              direction=None, delta_v_tol=req.dv_tol, ballistic_tol=req.bal_tol,
                              eps2d=req.eps * 1.0, n_workers=1)
    out = eng.solve(prob)
    return list(out.connections)


def obs_json(o):
    if isinstance(o, dict):
        return o
    return {"k": "seg", "seg": list(o[2]), "s": list(o[3]), "t": list(o[4]), "sflag": o[5]}


def judge(observations, rule="project", *, timeout=1500, chunk=20000):
    """TLC decides.  Returns {index: (verdict, conforms)} for observations that are rejected or do not conform
    to the transcription with the given ParallelRule."""
    out = {}
    states = 0
    for base in range(0, len(observations), chunk):
        part = observations[base:base + chunk]
        wd = workdir("judge")
        try:
            tf = wd / "obs.json"
            tf.write_text(json.dumps([obs_json(o) for o in part]))
            r = tlc(JUDGE, CFG / f"ConnPairingTrace.{rule}.cfg", workers=8, timeout=timeout,
                    env={"TRACE_FILE": str(tf), "JAVA_TOOL_OPTIONS": "-Xss64m"})
            if not r.ok or r.distinct != len(part):
                raise MachineryError(f"judge run failed: ok={r.ok} distinct={r.distinct} expected={len(part)} "
                                     f"{r.error}\n{r.out[-3000:]}")
            states += r.distinct
            for rec in r.printed():
                out[base + int(rec["tid"]) - 1] = (rec["v"], bool(rec["conf"]))
        finally:
            shutil.rmtree(wd, ignore_errors=True)
    return out, states


def main(tier=None, replay=None):
    ck = Check("C19", "model_checking", tier)
    rnd = random.Random(ck.seed)
    from hiten.algorithms.connections import backends as bk

    if replay:
        rp = replay if os.path.exists(replay) else str(VERIF / replay)
        data = json.load(open(rp))["data"]
        if data["kind"] == "seg":
            if data["site"] == "_refine_pairs_on_section":
                o = seg_obs_refine(bk, [data["seg"]])[0]
            else:
                o = seg_obs_direct(bk, data["seg"])
        else:
            o = run_case(bk, data["case"], via_engine=data.get("via_engine", False))
        verdicts, _ = judge([o])
        v = verdicts.get(0, ("ok", True))
        print(json.dumps({"observation": obs_json(o), "verdict": v[0]}, default=str)[:3000])
        if v[0] != "ok":
            print(f"VIOLATION property=C19 replay={replay}")
            return 1
        return 0

    # ---- 1. models
    r = tlc(SEG, CFG / f"SegDist.{ck.tier}.cfg", timeout=1500)
    ck.model("SegDist." + ck.tier, r)
    segs = sorted(x["seg"] for x in r.printed() if "seg" in x)      # TLC's print order varies with workers
    if not segs:
        raise MachineryError("TLC emitted no segment pairs")
    ra = tlc(SEG, CFG / "SegDist.asis.cfg", timeout=600)
    ck.model("SegDist.asis", ra, expect_ok=False)
    ck.part("SegDist.asis", transcription_of_unchanged_parallel_branch_violates=str(ra.invariant_violated))
    rp = tlc(PAIR, CFG / f"ConnPairing.{ck.tier}.cfg", timeout=2400)
    ck.model("ConnPairing." + ck.tier, rp)
    precs = rp.printed()
    header = next(x for x in precs if x.get("header"))
    clouds = sorted((x for x in precs if "pu" in x), key=lambda x: (len(x["pu"]) + len(x["ps"]), json.dumps(x, sort_keys=True)))
    if not ck.quick:
        rs = tlc(PAIR, CFG / "ConnPairing.sim.cfg", simulate="num=60", depth=12, seed=ck.seed, workers=8, timeout=1500)
        if rs.error or rs.invariant_violated or rs.rc == 124:
            raise MachineryError(f"simulation run failed: {rs.error or rs.invariant_violated}\n{rs.out[-2000:]}")
        seen = set()
        big = []
        for x in rs.printed():
            if "pu" in x:
                key = json.dumps(x, sort_keys=True)
                if key not in seen:
                    seen.add(key)
                    big.append(x)
        big.sort(key=lambda x: json.dumps(x, sort_keys=True))
        ck.part("ConnPairing.sim", big_clouds=len(big))
        clouds += big

    # ---- 2. segment kernels
    observations = []
    cases = []
    for sg in segs:
        observations.append(seg_obs_direct(bk, sg))
        cases.append({"kind": "seg", "site": "_closest_points_on_segments_2d", "seg": sg})
        ck.count(("seg", tuple(sg)), len(set(map(tuple, (sg[0:2], sg[2:4], sg[4:6], sg[6:8])))) >= 3)
    for o, sg in zip(seg_obs_refine(bk, segs), segs):
        observations.append(o)
        cases.append({"kind": "seg", "site": "_refine_pairs_on_section", "seg": sg})
        ck.count(("seg-refine", tuple(sg)), False)
    ck.part("segment_replay", segment_pairs=len(segs), calls=2 * len(segs))

    # ---- 3. clouds through run()
    radii, dvs, bals, labels = sorted(header["radii2"]), sorted(header["dv2"]), sorted(header["bal2"]), header["labels"]
    combos = [(li, dv2, bal2) for li in range(len(labels)) for dv2 in dvs for bal2 in bals]
    n_run = 0
    for ci, c in enumerate(clouds):
        small = len(c["pu"]) + len(c["ps"]) <= 4
        for ri, r2 in enumerate(radii):
            # budget: quick 1-2 configurations per (clouds, radius); thorough 4 for small clouds, and for the
            # larger ones 1 configuration on 2 of the 5 radii (rotating, so every radius/configuration is used)
            if ck.quick:
                sel = [combos[(ci + 5 * ri) % len(combos)]] + ([combos[(3 * ci + ri + 7) % len(combos)]] if ri < 2 else [])
            elif small:
                sel = [combos[(ci + 5 * ri + 3 * q) % len(combos)] for q in range(4)]
            elif (ci + ri) % 5 < 2:
                sel = [combos[(ci + 5 * ri) % len(combos)]]
            else:
                sel = []
            for (li, dv2, bal2) in sel:
                case = {"pu": c["pu"], "ps": c["ps"], "r2": r2, "dv2": dv2, "bal2": bal2,
                        "au": labels[li]["u"], "bs": labels[li]["s"]}
                # through the engine + interface: every 7th run, and every other run whose ballistic tolerance exceeds the delta-v limit
                via_engine = (n_run % 7 == 0) or (bal2 > dv2 and n_run % 2 == 0)
                observations.append(run_case(bk, case, via_engine=via_engine))
                cases.append({"kind": "run", "case": case, "via_engine": via_engine})
                n_run += 1
        ck.count(("clouds", json.dumps(c, sort_keys=True)), len(c["pu"]) + len(c["ps"]) >= 3, n=0)
    ck.cov["evaluations"] += n_run
    ck.part("cloud_replay", cloud_pairs=len(clouds), backend_runs=n_run)

    # ---- TLC judges; conformance against both transcriptions
    verdicts, jstates = judge(observations, "project")
    ck.cov["states"] += jstates
    ck.cov["traces_validated_against_impl"] += len(observations)
    bad = {i: v for i, (v, _) in verdicts.items() if v != "ok"}
    nonconf = [i for i, (_, c) in verdicts.items() if not c]
    conf_asis = 0
    neither = []
    if nonconf:
        v2, _ = judge([observations[i] for i in nonconf], "asis")
        for k, i in enumerate(nonconf):
            if k in v2 and not v2[k][1]:
                neither.append(i)
            else:
                conf_asis += 1
    ck.part("judge", observations=len(observations), rejected=len(bad),
            conform_to_transcription_with_repair=len(observations) - len(nonconf),
            conform_only_to_transcription_of_unchanged_branch=conf_asis, conform_to_neither=len(neither),
            tolerance=TOL, max_parameter_snap_deviation=Dev.param, max_state_deviation=Dev.state,
            max_delta_v_deviation=Dev.dv)
    for i in neither[:5]:
        if i not in bad:
            ck.notes.append("real code diverges from both transcriptions without violating a C19 clause: "
                            + json.dumps(obs_json(observations[i]))[:400])

    def size(i):
        o = observations[i]
        if isinstance(o, dict):
            return (1, len(o["pu"]) + len(o["ps"]), len(o["res"]), json.dumps(o, sort_keys=True))
        return (0, sum(o[2]), 0, str(o))

    # a downstream rejection that is explained by a rejection of the kernel itself (same input class) is
    # reported under the kernel's key; downstream keys remain for defects the kernel does not show
    kernel_bad = {bad[i] for i in bad if cases[i]["kind"] == "seg" and cases[i]["site"] == "_closest_points_on_segments_2d"}
    PREFIX = "meeting-point-not-at-closest-points-of-local-segments|"
    counts = {}
    keyed = []
    for i in sorted(bad, key=size):
        o, case, v = observations[i], cases[i], bad[i]
        if case["kind"] == "seg":
            site = case["site"]
            cls = v
        else:
            site = "_ConnectionEngine.solve" if case["via_engine"] else "_ConnectionsBackend.run"
            cls = v[len(PREFIX):] if v.startswith(PREFIX) else None
        if cls in kernel_bad and site != "_closest_points_on_segments_2d":
            key = f"_closest_points_on_segments_2d|{cls}"
            counts.setdefault(key, {}).setdefault("seen through " + site, 0)
            counts[key]["seen through " + site] += 1
            continue
        key = f"{site}|{v}"
        counts.setdefault(key, {}).setdefault("direct", 0)
        counts[key]["direct"] += 1
        keyed.append((key, i))
    done = set()
    for key, i in keyed:
        if key in done:
            continue
        done.add(key)
        o, case, v = observations[i], cases[i], bad[i]
        if case["kind"] == "seg":
            sg = case["seg"]
            desc = (f"{case['site']}{tuple(sg)} returns s={o[3][0]}/{o[3][1]} t={o[4][0]}/{o[4][1]} ({v}): TLC judges that the "
                    f"points at the returned parameters are not a closest pair of segment ({sg[0]},{sg[1]})-({sg[2]},{sg[3]}) "
                    f"and segment ({sg[4]},{sg[5]})-({sg[6]},{sg[7]})" if not o[5] else f"{case['site']}{tuple(sg)}: {v}")
        else:
            desc = f"{key.split('|')[0]}: {v}: observation {json.dumps(obs_json(o))[:500]}"
        ck.violation(key, desc + f" ;; occurrences: {counts[key]}", dict(case, verdict=v, observation=obs_json(o)))

    # ---- 4. binding self-test
    selftest(ck, observations, verdicts, rnd)

    ck.sample({"segments": segs[len(segs) // 3]})
    ck.sample({"clouds": clouds[len(clouds) // 2]})
    ck.cov["rule"] = ("cases = segment pairs and cloud pairs enumerated by TLC (all end points / all clouds on the grid within "
                      "the constants, plus -simulate walks for larger clouds in the thorough tier); evaluations = calls of "
                      "the real kernels / backend; non-trivial = >= 3 distinct end points, >= 3 cloud points")
    ck.cov["exhaustive"] = True
    ck.assumptions += [
        "points on an integer grid, search radius^2 in {0.5,1.5,2.5,4.5,8.5}: no distance lies on the radius boundary",
        "velocity of a point = integer label * (2,-1,2); limits k+1/2; the ballistic label is unconstrained when "
        "delta_v equals the tolerance exactly",
        "ties: every UNIQUE mutual-nearest pair (whose delta-v is below the limit at every corner of the two local "
        "segments) must be reported; every reported pair must be a non-strict mutual-nearest pair",
        "meeting-point clause required only when both clouds have >= 2 points (otherwise no local segment exists)",
        "section extraction from manifolds (interfaces.to_section / ConnectionPipeline.solve with real manifolds) is "
        "not exercised; the engine is driven with a scripted interface",
    ]
    return ck.finish()


def selftest(ck, observations, verdicts, rnd):
    good_seg = [o for i, o in enumerate(observations) if not isinstance(o, dict) and i not in verdicts
                and o[3] not in ((0, 1), (1, 1)) and o[4] not in ((0, 1), (1, 1))]
    good_run = [o for i, o in enumerate(observations) if isinstance(o, dict) and (i not in verdicts or verdicts[i][0] == "ok")
                and len(o["res"]) >= 2 and o["dv2"] > 10000]
    if not good_seg or not good_run:
        raise MachineryError("self-test: no accepted observation to corrupt")
    def d2(o, i, j):
        return (o["pu"][i - 1][0] - o["ps"][j - 1][0]) ** 2 + (o["pu"][i - 1][1] - o["ps"][j - 1][1]) ** 2

    def last_is_unique_mutual(o):
        # choice of the input to corrupt only: dropping a result is a corruption for sure when that pair
        # is the UNIQUE mutual-nearest pair (ties are not required to be reported)
        i, j = o["res"][-1]["i"], o["res"][-1]["j"]
        return (all(d2(o, i, j) < d2(o, i, k) for k in range(1, len(o["ps"]) + 1) if k != j)
                and all(d2(o, i, j) < d2(o, k, j) for k in range(1, len(o["pu"]) + 1) if k != i))
    good_run = [o for o in good_run if last_is_unique_mutual(o)]
    if not good_run:
        raise MachineryError("self-test: no accepted run with a unique mutual-nearest last pair to corrupt")
    sg = rnd.choice(good_seg)
    rn = json.loads(json.dumps(rnd.choice(good_run)))
    mut = []
    mut.append(("seg-move-s", sg[:3] + ((0, 1),) + sg[4:]))
    mut.append(("seg-swap-s-t", sg[:3] + (sg[4], sg[3]) + sg[5:]) if sg[3] != sg[4] else ("seg-move-t", sg[:4] + ((1, 1),) + sg[5:]))
    m1 = json.loads(json.dumps(rn)); m1["res"] = m1["res"][:-1]
    mut.append(("run-drop-last-result", m1))
    m2 = json.loads(json.dumps(rn)); m2["res"][-1]["j"] = m2["res"][0]["j"]
    mut.append(("run-point-in-two-results", m2))
    m3 = json.loads(json.dumps(rn)); m3["res"][0]["rank"], m3["res"][-1]["rank"] = 5, 0
    mut.append(("run-unsorted", m3))
    m4 = json.loads(json.dumps(rn)); m4["res"][-1]["bal"] = not m4["res"][-1]["bal"]; m4["res"][-1]["ballt"] = 1 if not m4["res"][-1]["bal"] else 0
    mut.append(("run-wrong-ballistic-label", m4))
    m5 = json.loads(json.dumps(rn)); m5["res"][-1]["dvle"] = False
    mut.append(("run-delta-v-above-limit", m5))
    m6 = json.loads(json.dumps(rn)); m6["r2"] = 1
    if any(2 * ((m6["pu"][r["i"] - 1][0] - m6["ps"][r["j"] - 1][0]) ** 2 + (m6["pu"][r["i"] - 1][1] - m6["ps"][r["j"] - 1][1]) ** 2) > 1
           for r in m6["res"]):
        mut.append(("run-pair-outside-radius", m6))
    v, _ = judge([m[1] for m in mut] + [sg, rn])
    accepted = [mut[i][0] for i in range(len(mut)) if i not in v or v[i][0] == "ok"]
    if accepted:
        raise MachineryError(f"binding self-test: corrupted observations accepted by the judge: {accepted}")
    for i in (len(mut), len(mut) + 1):
        if i in v and v[i][0] != "ok":
            raise MachineryError("binding self-test: an accepted observation was rejected on re-judging")
    ck.part("selftest", corrupted_observations_rejected=len(mut), kinds=[m[0] for m in mut])


if __name__ == "__main__":
    sys.exit(main())
