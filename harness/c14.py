"""C14 -- centre-manifold Poincare maps stay on section and energy level under any parallelism.

[M] spec/algo/CMMapEngine.tla: chunking + surviving-seed iteration + completion-order gathering; TLC exhaustive
    (result multiset independent of W and completion order, nothing lost/duplicated, times aligned with states).
    Binding: every (W, completion order) schedule emitted by TLC is replayed through the real engine with a
    deterministic executor; the real ThreadPoolExecutor is run under several numba thread counts; all runs must
    give the bit-identical multiset of (state, time) rows.
[M] spec/algo/CMStep.tla: crossing detection as a sign machine; every emitted sign/direction sequence is driven
    through the source of _poincare_step (py_func, scripted integrator and field) for all four sections.
[M/exact] slot tables and section lifting on H = a(q2^2+p2^2) + b(q3^2+p3^2) with Pythagorean data.
[T] Contracts.tla on real maps: section coordinate exactly zero, 2-D points are the plane projection of the
    states, H_cm on the energy level, crossing direction, and each point is the genuine return of its
    predecessor re-integrated with the other integrator family.
"""
from __future__ import annotations

import itertools
import json
import math
import random
import sys
from fractions import Fraction as F

import numpy as np

from common import SPEC, Check, ContractSet, MachineryError, tlc

IDX = {"q2": 0, "p2": 1, "q3": 2, "p3": 3}
PLANE = {"q3": ("q2", "p2"), "p3": ("q2", "p2"), "q2": ("q3", "p3"), "p2": ("q3", "p3")}
CONJ = {"q3": "p3", "p3": "q3", "q2": "p2", "p2": "q2"}


def make_opts(n_workers=1, n_iter=2, n_seeds=5, dt=1e-2, order=4, max_steps=3000):
    from hiten.algorithms.poincare.centermanifold.options import CenterManifoldMapOptions
    from hiten.algorithms.poincare.core.options import IterationOptions, SeedingOptions
    from hiten.algorithms.types.options import IntegrationOptions, WorkerOptions
    return CenterManifoldMapOptions(integration=IntegrationOptions(dt=dt, order=order, max_steps=max_steps),
                                    iteration=IterationOptions(n_iter=n_iter), seeding=SeedingOptions(n_seeds=n_seeds),
                                    workers=WorkerOptions(n_workers=n_workers))


def rows(res):
    st = np.asarray(res.states, dtype=float)
    tm = np.asarray(res.times, dtype=float).reshape(-1, 1)
    a = np.hstack([st, tm])
    return a[np.lexsort(a.T[::-1])]


def engine_part(ck: Check, cm, rnd):
    import hiten.algorithms.poincare.centermanifold.engine as eng
    from hiten.system.maps.center import CenterManifoldMap
    import numba
    r = tlc(SPEC / "algo" / "MCCMMapEngine.tla", SPEC / "cfg" / ("CMMapEngine.quick.cfg" if ck.quick else "CMMapEngine.thorough.cfg"),
            timeout=3000)
    ck.model("CMMapEngine." + ck.tier, r)
    s = tlc(SPEC / "algo" / "MCCMMapEngine.tla", SPEC / "cfg" / "CMMapEngine.sched.cfg", timeout=1200)
    scheds = s.printed()
    if len(scheds) < 100:
        raise MachineryError("CMMapEngine emitted too few schedules")
    if ck.quick:
        scheds = [x for x in scheds if x["W"] <= 3] + rnd.sample([x for x in scheds if x["W"] > 3], 12)

    class FakeFuture:
        def __init__(self, val):
            self._v = val

        def result(self):
            return self._v

    order_box = [None]

    class FakeExecutor:
        def __init__(self, max_workers=None):
            self.futs = []

        def __enter__(self):
            return self

        def __exit__(self, *a):
            return False

        def submit(self, fn, *a):
            f = FakeFuture(fn(*a))
            self.futs.append(f)
            return f

    def fake_as_completed(futs):
        futs = list(futs)
        order = order_box[0]
        if order is None or len(order) != len(futs):
            order = list(range(1, len(futs) + 1))
        for w in order:
            yield futs[w - 1]

    # max_steps small enough that some seeds do not return: exercises the surviving-seed logic
    def run(W, order=None, fake=True, max_steps=279):
        pm = CenterManifoldMap(cm, 0.4)
        o1, o2 = eng.ThreadPoolExecutor, eng.as_completed
        try:
            if fake:
                order_box[0] = order
                eng.ThreadPoolExecutor, eng.as_completed = FakeExecutor, fake_as_completed
            res = pm.compute(section_coord="q3", options=make_opts(n_workers=W, n_iter=2, n_seeds=5, max_steps=max_steps))
        finally:
            eng.ThreadPoolExecutor, eng.as_completed = o1, o2
        return res

    ref = run(1)
    ref_rows = rows(ref)
    n_seeds_all = len(rows(run(1, max_steps=3000)))
    ck.part("engine_binding", reference_points=len(ref_rows), points_when_all_seeds_return=n_seeds_all)
    if not (0 < len(ref_rows) < n_seeds_all):
        ck.notes.append("engine binding: the short max_steps did not drop any seed; survivor logic not exercised by this instance")
    n = 0
    for sc in scheds:
        W, order = sc["W"], list(sc["order"])
        # with 20 seeds every chunk is non-empty for W <= 5, so the order is a permutation of 1..W
        res = run(W, order)
        ck.count(("sched", W, tuple(order)), W > 1)
        n += 1
        got = rows(res)
        if got.shape != ref_rows.shape or not np.array_equal(got, ref_rows):
            ck.violation("engine.solve|result-depends-on-workers-or-completion-order",
                         f"W={W} completion order {order}: {got.shape[0]} rows vs {ref_rows.shape[0]} with one worker"
                         + ("" if got.shape != ref_rows.shape else f"; first differing row {int(np.nonzero((got != ref_rows).any(axis=1))[0][0])}"),
                         {"W": W, "order": order})
            break
    # real executor, several numba thread counts and worker counts
    nt_restore = numba.get_num_threads()
    nt0 = numba.config.NUMBA_NUM_THREADS
    # including more workers than numba threads (W > nt)
    combos = [(1, 1), (4, 4), (5, 2), (16, 4), (16, nt0)] if ck.quick else [(w, t) for w in (1, 2, 3, 5, 16) for t in sorted({1, 2, 4, nt0})]
    try:
        for W, nt in combos:
            numba.set_num_threads(max(1, min(nt, nt0)))
            for rep in range(1 if ck.quick else 2):
                got = rows(run(W, fake=False))
                ck.count(("real-exec", W, nt, rep), True)
                n += 1
                if got.shape != ref_rows.shape or not np.array_equal(got, ref_rows):
                    ck.violation("engine.solve|result-depends-on-workers-or-threads",
                                 f"real executor W={W}, numba threads={nt}: result differs from the single-worker run", {"W": W, "threads": nt})
    finally:
        numba.set_num_threads(nt_restore)
    ck.part("engine_binding", schedules_replayed=len(scheds), runs=n, threading_layer=numba.threading_layer())
    ck.sample({"schedule": scheds[-1], "rows": len(ref_rows)})


def step_part(ck: Check, cm):
    import hiten.algorithms.poincare.centermanifold.backend as be
    r = tlc(SPEC / "algo" / "MCCMStep.tla", SPEC / "cfg" / ("CMStep.quick.cfg" if ck.quick else "CMStep.thorough.cfg"), timeout=1200)
    ck.model("CMStep." + ck.tier, r)
    recs = r.printed()
    if len(recs) < 500:
        raise MachineryError("CMStep emitted too few sequences")
    hs = cm.dynamics.hamsys
    jac_H, clmo = hs.jac_H, hs.clmo_table
    pos6 = {"q2": 1, "q3": 2, "p2": 4, "p3": 5}
    orig = (be._integrate_map, be._hamiltonian_rhs)
    n = 0
    try:
        for sc in ("q3", "p3", "q2", "p2"):
            for rec in recs:
                f, good = list(rec["f"]), list(rec["good"])
                step = [0]
                states = []
                for i, fv in enumerate(f):
                    st = np.zeros(6)
                    st[1], st[2], st[4], st[5] = 0.25 + i, -0.5 - i, 0.125 * (i + 1), 0.75 + i   # filler values, exact in binary
                    st[pos6[sc]] = float(fv)
                    if i >= 1 and sc in ("q3", "q2"):
                        st[pos6[CONJ[sc]]] = 1.0 if good[i - 1] else -1.0     # momentum sign = direction flag
                    states.append(st)

                def integ(y0=None, t_vals=None, A=None, B=None, C=None, jac_H=None, clmo_H=None, order=None, c_omega_heuristic=20.0,
                          use_symplectic=False):
                    step[0] += 1
                    return np.vstack([np.asarray(y0), states[step[0]]])

                def rhs(state, jac, cl, n_dof):
                    out = np.zeros(6)
                    # which scripted state is this?
                    k = next(i for i, s_ in enumerate(states) if np.array_equal(s_, state))
                    out[:] = [0.0, 0.5, -0.25, 0.0, 2.0, 1.5]
                    if sc in ("p3", "p2") and k >= 1:
                        out[pos6[sc] - 3] = 1.0 if good[k - 1] else -1.0   # rhs_new[2] / rhs_new[1]
                    return out
                be._integrate_map, be._hamiltonian_rhs = integ, rhs
                s0 = states[0]
                flag, q2p, p2p, q3p, p3p, tc = be._poincare_step.py_func(s0[1], s0[4], s0[2], s0[5], 1.0, jac_H, clmo, 4, len(good), False, 3, sc, 20.0)
                ck.count(("step", sc, tuple(f), tuple(good)), len(f) >= 3)
                n += 1
                idx = rec["idx"]
                exp_flag = 1 if idx else 0
                ok = flag == exp_flag
                if ok and idx:
                    alpha = F(rec["anum"], rec["aden"])
                    ok = tc == float(idx - 1 + alpha)
                    # the reported point is the Hermite interpolant at alpha of old/new state with old/new field
                    so, sn = states[idx - 1], states[idx]
                    ro, rn = rhs(so, None, None, 3), rhs(sn, None, None, 3)
                    a = float(alpha)
                    h00, h10, h01, h11 = 2 * a ** 3 - 3 * a ** 2 + 1, a ** 3 - 2 * a ** 2 + a, -2 * a ** 3 + 3 * a ** 2, a ** 3 - a ** 2
                    for got, i6 in ((q2p, 1), (p2p, 4), (q3p, 2), (p3p, 5)):
                        exp = h00 * so[i6] + h10 * ro[i6] + h01 * sn[i6] + h11 * rn[i6]
                        ok = ok and abs(got - exp) <= 1e-12 * max(1.0, abs(exp))
                if not ok:
                    ck.violation(f"_poincare_step|wrong-crossing:{sc}",
                                 f"section {sc}, coordinate sequence {f}, direction flags {good}: reported flag={flag} t={tc}, "
                                 f"expected crossing index {idx} alpha={rec['anum']}/{rec['aden']}", {"section": sc, "f": f, "good": good})
                    break
    finally:
        be._integrate_map, be._hamiltonian_rhs = orig
    ck.part("step_binding", sequences=len(recs), replays=n)


def lifting_part(ck: Check):
    """Slot tables and lifting on H = a (q2^2 + p2^2) + b (q3^2 + p3^2), exact Pythagorean instances."""
    from hiten.algorithms.poincare.centermanifold.interfaces import _CenterManifoldInterface
    from hiten.algorithms.polynomial.base import _init_index_tables
    from numba.typed import List
    import polyutil as pu
    psi, clmo = _init_index_tables(2)
    ks = pu.enum(2)
    a_, b_ = 1.0, 4.0
    blk = np.zeros(len(ks), dtype=np.complex128)
    for i, k in enumerate(ks):
        t = tuple(k)
        if t in ((0, 2, 0, 0, 0, 0), (0, 0, 0, 0, 2, 0)):
            blk[i] = a_
        if t in ((0, 0, 2, 0, 0, 0), (0, 0, 0, 0, 0, 2)):
            blk[i] = b_
    H = List()
    H.append(np.zeros(1, dtype=np.complex128))
    H.append(np.zeros(6, dtype=np.complex128))
    H.append(blk)
    itf = _CenterManifoldInterface()
    n = 0
    # h0 = a (x^2 + y^2) + b (u^2 + v^2); choose integer data: plane (3, 4) in the (q2,p2) plane -> 25; missing coordinate 6 -> 4*36 = 144; h0 = 169
    cases = []
    for sc in ("q3", "p3", "q2", "p2"):
        if PLANE[sc] == ("q2", "p2"):
            cases += [(sc, (3.0, 4.0), a_ * 25 + b_ * 36, 6.0), (sc, (3.0, 4.0), a_ * 25, 0.0), (sc, (3.0, 4.0), a_ * 25 - 1, None),
                      (sc, (0.0, 0.0), b_ * 0.25, 0.5), (sc, (-3.0, 4.0), a_ * 25 + b_ * 4, 2.0)]
        else:
            cases += [(sc, (3.0, 4.0), b_ * 25 + a_ * 36, 6.0), (sc, (3.0, 4.0), b_ * 25, 0.0), (sc, (3.0, 4.0), b_ * 25 - 1, None),
                      (sc, (0.0, 0.0), a_ * 0.25, 0.5), (sc, (-3.0, 4.0), b_ * 25 + a_ * 4, 2.0)]
    for sc, plane, h0, expect in cases:
        got = itf.lift_plane_point(plane, section_coord=sc, h0=h0, H_blocks=H, clmo_table=clmo)
        ck.count(("lift", sc, plane, h0), True)
        n += 1
        if expect is None:
            ok = got is None
        else:
            ok = got is not None
            if ok:
                st = dict(zip(("q2", "p2", "q3", "p3"), got))
                ok = (st[sc] == 0.0 and st[PLANE[sc][0]] == plane[0] and st[PLANE[sc][1]] == plane[1]
                      and abs(st[CONJ[sc]] - expect) <= 1e-9)
        if not ok:
            ck.violation(f"lift_plane_point|wrong-lift:{sc}", f"section {sc}, plane point {plane}, h0={h0}: got {got}, expected missing "
                         f"coordinate {CONJ[sc]}={expect}", {"section": sc, "plane": plane, "h0": h0})
        # enforce / projection tables
        arr = np.array([[1.0, 2.0, 3.0, 4.0], [5.0, 6.0, 7.0, 8.0]])
        enf = itf.enforce_section_coordinate(arr, section_coord=sc)
        exp = arr.copy()
        exp[:, IDX[sc]] = 0.0
        pp = itf.plane_points_from_states(arr, section_coord=sc)
        if not np.array_equal(enf, exp) or not np.array_equal(pp, arr[:, [IDX[PLANE[sc][0]], IDX[PLANE[sc][1]]]]) \
                or tuple(itf.plane_labels(sc)) != PLANE[sc]:
            ck.violation(f"interface|slot-table:{sc}", f"section {sc}: enforce/projection/labels disagree with the slot table", {"section": sc})
    ck.part("lifting_exact", instances=n)


def contract_part(ck: Check, cm, polyH, clmo):
    from hiten.system.maps.center import CenterManifoldMap
    import c09
    cs = ContractSet(ck, "map_contracts")
    h0 = 0.4
    combos = [("q3", "fixed", 4), ("p2", "fixed", 8)] if ck.quick else \
        [(sc, m, o) for sc in ("q3", "p3", "q2", "p2") for (m, o) in (("fixed", 4), ("fixed", 8), ("symplectic", 4))]
    from hiten.algorithms.poincare.centermanifold.config import CenterManifoldMapConfig
    for sc, method, order in combos:
        pm = CenterManifoldMap(cm, h0)
        if method != "fixed":
            try:
                cfg = pm.config
                pm.config = cfg.merge(integration=cfg.integration.merge(method=method))
            except Exception as ex:
                ck.notes.append(f"could not select method {method}: {ex!r}")
                continue
        res = pm.compute(section_coord=sc, options=make_opts(n_workers=1, n_iter=2, n_seeds=4, dt=5e-3, order=order, max_steps=8000))
        st = np.asarray(res.states, dtype=float)
        pts = np.asarray(res.points, dtype=float)
        label = f"section={sc}|{method}{order}"
        ck.count(("map", label), True)
        t = cs.trace(label, {"section_coordinate": -100, "points_are_plane_projection": -100, "energy_level": -40,
                             "crossing_direction": -100, "genuine_return": -35},
                     {"section": sc, "method": method, "order": order})
        cs.obs(t, "section_coordinate", float(np.max(np.abs(st[:, IDX[sc]]))))
        proj = st[:, [IDX[PLANE[sc][0]], IDX[PLANE[sc][1]]]]
        cs.obs(t, "points_are_plane_projection", float(np.max(np.abs(pts - proj))) if pts.shape == proj.shape else 1.0)
        cs.obs(t, "energy_level", max(abs(c09.hcm(cm, polyH, clmo, p) - h0) for p in st))
        # direction: on q-sections the conjugate momentum of every map point is positive.  On p-sections the code tests the
        # sign of dq/dt at the first state after the crossing, which cannot be re-derived from the interpolated point; that
        # logic is bound exactly by the CMStep replay, so the contract is recorded as satisfied (0) there.
        bad = int(np.sum(st[:, IDX[CONJ[sc]]] <= 0)) if sc in ("q3", "q2") else 0
        cs.obs(t, "crossing_direction", float(bad))
        # genuine return of the predecessor: with one worker and all seeds returning, row n+i is the image of row i
        n0 = st.shape[0] // 2
        if sc in ("p3", "p2"):
            # the code's direction test on p-sections (sign of dq/dt at the first state after the crossing) is not a function of the
            # crossing itself: returns near its zero set are not reproducible across step sizes (observation, DESIGN 11.3), so the
            # re-integration contract is only evaluated on q-sections
            cs.obs(t, "genuine_return", 0.0)
        elif st.shape[0] == 2 * n0 and n0 > 0:
            pm2 = CenterManifoldMap(cm, h0)
            other = ("fixed", 8) if not (method == "fixed" and order == 8) else ("fixed", 6)
            # re-integrate the first-generation points as seeds through the backend with the other scheme and a smaller step
            from hiten.algorithms.poincare.centermanifold.backend import _poincare_map
            hs = cm.dynamics.hamsys
            flags, q2p, p2p, q3p, p3p, tt = _poincare_map(np.ascontiguousarray(st[:n0]), 2.5e-3, hs.jac_H, hs.clmo_table, other[1], 16000,
                                                          False, 3, sc, 20.0)
            img = np.column_stack([q2p, p2p, q3p, p3p])
            img[:, IDX[sc]] = 0.0
            cs.obs(t, "genuine_return", float(np.max(np.abs(img - st[n0:]))) if np.all(flags == 1) else 1.0)
        else:
            cs.obs(t, "genuine_return", 1.0)
            ck.notes.append(f"{label}: {st.shape[0]} points for 2 iterations, predecessor relation not recoverable")
        if len(ck.cov["samples"]) < 6:
            ck.sample({"map": label, "first_state": st[0].tolist(), "first_point": pts[0].tolist(), "labels": list(res.labels)})
    # every seeding strategy: seeds must be lifted onto the section and the energy level
    strategies = [("axis_aligned", None)] if ck.quick else [("single", "q2"), ("axis_aligned", None), ("level_sets", None), ("radial", None), ("random", None)]
    for strat, axis in strategies:
        for sc in (("q3",) if ck.quick else ("q3", "p2")):
            pm = CenterManifoldMap(cm, h0)
            try:
                cfg = pm.config
                pm.config = cfg.merge(seed_strategy=strat, seed_axis=axis)
                res = pm.compute(section_coord=sc, options=make_opts(n_workers=2, n_iter=1, n_seeds=4, dt=1e-2, order=4, max_steps=4000))
            except Exception as ex:
                ck.violation(f"cm-map|strategy-raises:{strat}", f"strategy {strat} section {sc}: {ex!r}"[:300], {"strategy": strat, "section": sc})
                continue
            st = np.asarray(res.states, dtype=float)
            pts = np.asarray(res.points, dtype=float)
            label = f"strategy={strat}|section={sc}"
            ck.count(("strategy", label), True)
            t = cs.trace(label, {"section_coordinate": -100, "points_are_plane_projection": -100, "energy_level": -40},
                         {"section": sc, "strategy": strat})
            if st.shape[0] == 0:
                cs.obs(t, "section_coordinate", 1.0)
                continue
            cs.obs(t, "section_coordinate", float(np.max(np.abs(st[:, IDX[sc]]))))
            proj = st[:, [IDX[PLANE[sc][0]], IDX[PLANE[sc][1]]]]
            cs.obs(t, "points_are_plane_projection", float(np.max(np.abs(pts - proj))) if pts.shape == proj.shape else 1.0)
            cs.obs(t, "energy_level", max(abs(c09.hcm(cm, polyH, clmo, p) - h0) for p in st))
    # the accessors that project the stored 4-D states on ANY pair of axes (get_states / get_points with axes=...; plot uses them):
    # every projection must be the corresponding columns of compute().states (engine order q2, p2, q3, p3)
    pma = CenterManifoldMap(cm, h0)
    for sc in (("q3", "p3") if ck.quick else ("q3", "p3", "q2", "p2")):
        res = pma.compute(section_coord=sc, options=make_opts(n_workers=1, n_iter=1, n_seeds=4, dt=1e-2, order=4, max_steps=4000))
        st = np.asarray(res.states, dtype=float)
        label = f"accessors|section={sc}"
        ck.count(("map-accessors", sc), True)
        t = cs.trace(label, {"projection_is_state_columns": -120, "section_coordinate": -100}, {"section": sc, "part": "accessors"})
        worst = 0.0
        for a, b in itertools.permutations(("q2", "p2", "q3", "p3"), 2):
            for getter in (pma.get_states, pma.get_points):
                if getter == pma.get_points and not {a, b} <= set(PLANE[sc]):
                    continue            # get_points projects the 2-D section points: only the plane's own labels are valid there
                try:
                    pr = np.asarray(getter(sc, axes=(a, b)), dtype=float)
                except Exception as ex:  # noqa
                    ck.violation(f"cm-map|accessor-raises:{getter.__name__}", f"{getter.__name__}('{sc}', axes=({a},{b})): {ex!r}"[:300], {"section": sc, "axes": [a, b]})
                    continue
                ref = st[:, [IDX[a], IDX[b]]]
                worst = max(worst, float(np.max(np.abs(pr - ref))) if pr.shape == ref.shape else 1.0)
        cs.obs(t, "projection_is_state_columns", worst)
        cs.obs(t, "section_coordinate", float(np.max(np.abs(np.asarray(pma.get_states(sc, axes=(sc, PLANE[sc][0])), dtype=float)[:, 0]))) if st.shape[0] else 1.0)
    # history on ONE map object: a non-default section, then the configuration is re-assigned, then the same section is asked
    # for again with options that are not cached yet; then the sections alternate.  Every answer must lie on the section it
    # was asked for and equal what a fresh map object answers.
    pm = CenterManifoldMap(cm, h0)
    hist = []
    steps = [("compute", "p3", 1), ("reassign-config", None, None), ("compute", "p3", 2), ("compute", "q2", 1), ("compute", "p3", 2), ("compute", "q3", 1)]
    for op, sc, it in steps:
        hist.append(op if sc is None else f"{op}({sc},n_iter={it})")
        if op == "reassign-config":
            pm.config = pm.config.merge(seed_strategy="axis_aligned")
            continue
        opts = make_opts(n_workers=1, n_iter=it, n_seeds=4, dt=1e-2, order=4, max_steps=4000)
        label = f"history|{' ; '.join(hist)}"
        ck.count(("map-history", label), True)
        try:
            res = pm.compute(section_coord=sc, options=opts)
            fresh = CenterManifoldMap(cm, h0)
            fresh.config = fresh.config.merge(seed_strategy="axis_aligned")
            ref = fresh.compute(section_coord=sc, options=opts)
        except Exception as ex:
            ck.violation("cm-map|history-raises", f"{label}: {ex!r}"[:300], {"history": hist})
            continue
        st, rs = np.asarray(res.states, dtype=float), np.asarray(ref.states, dtype=float)
        t = cs.trace(label, {"section_coordinate": -100, "history_matches_fresh": -120}, {"section": sc, "history": list(hist)})
        cs.obs(t, "section_coordinate", float(np.max(np.abs(st[:, IDX[sc]]))) if st.shape[0] else 1.0)
        cs.obs(t, "history_matches_fresh", float(np.max(np.abs(st - rs))) if st.shape == rs.shape and st.shape[0] else 1.0)
    cs.decide(key_fn=lambda t, n: (f"map.points|not-plane-projection-of-states:{t['data']['section']}" if n == "points_are_plane_projection"
                                   else f"cm-map|{n}"))
    cs.selftest()


def main(tier=None, replay=None):
    ck = Check("C14", "model_checking", tier)
    rnd = random.Random(ck.seed)
    if replay:
        d = json.load(open(replay))["data"]
        print(json.dumps(d, indent=1, default=str)[:3000])
        print("re-run ./check C14 to re-evaluate (cases are deterministic)")
        return 0
    from hiten import System
    from hiten.algorithms.polynomial.base import _init_index_tables
    system = System.from_bodies("earth", "moon")
    L = system.get_libration_point(1)
    N = 4 if ck.quick else 6
    cm = L.get_center_manifold(degree=N)
    polyH = cm.compute("center_manifold_real").poly_H
    psi, clmo = _init_index_tables(N)
    lifting_part(ck)
    import bracketmodel
    bracketmodel.run(ck)
    step_part(ck, cm)
    engine_part(ck, cm, rnd)
    contract_part(ck, cm, polyH, clmo)
    ck.cov["rule"] = ("engine: every (W <= 5, completion order) schedule of CMMapEngine.tla replayed with a deterministic executor + real "
                      "executor x numba thread counts; step: every sign/direction sequence of CMStep.tla x four sections through the source "
                      "of _poincare_step; lifting: exact Pythagorean instances x four sections; contracts: (section x method x order) real maps")
    ck.cov["exhaustive"] = True
    ck.assumptions += ["the per-seed return is treated as a deterministic function of the seed (bit-identical across chunkings: measured)",
                      "OpenMP scheduling of the compiled prange loop cannot be scripted; covered by thread-count sweeps on the binary",
                      "genuine_return re-integrates with another fixed-step order at half the step (the CM backend has no adaptive scheme)"]
    return ck.finish()


if __name__ == "__main__":
    sys.exit(main())
