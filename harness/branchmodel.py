"""ManifoldBranch.tla <-> real manifold service: scripted integration outcomes through _run_compute, and the phase
index table through _totime."""
from __future__ import annotations

import json

import numpy as np

from common import SPEC, Check, MachineryError, tlc, validate_traces


class _Sol:
    def __init__(self, times, states):
        self.times, self.states = times, states


def run(ck: Check, rnd):
    from hiten import System
    import hiten.algorithms.types.services.manifold as msvc

    r = tlc(SPEC / "algo" / "MCManifoldBranch.tla", SPEC / "cfg" / ("ManifoldBranch.quick.cfg" if ck.quick else "ManifoldBranch.thorough.cfg"),
            timeout=1200)
    ck.model("ManifoldBranch." + ck.tier, r)
    recs = r.printed()
    beh = [x for x in recs if "script" in x]
    phase = [x for x in recs if "phase" in x]
    if not beh or not phase:
        raise MachineryError("ManifoldBranch model emitted no behaviours / phase table")

    system = System.from_bodies("earth", "moon")
    L = system.get_libration_point(1)
    mu = float(system.mu)
    x_l1 = float(L.position[0])
    orbit = L.create_orbit("generic", initial_state=[x_l1 + 2e-3, 0.0, 0.0, 0.0, -1.2e-2, 0.0])
    orbit.period = 2.7
    mans = {(s, d): orbit.manifold(stable=s, direction=("positive" if d == 1 else "negative")) for s in (True, False) for d in (1, -1)}

    # phase index table into the real _totime (grid k = 0..n-1, period n-1; fractions dyadic => exact)
    svc0 = mans[(True, 1)].dynamics
    nph = 0
    for rec in phase[0]["phase"]:
        n, p, q, k = rec
        for sign in (1.0, -1.0):
            got = int(np.atleast_1d(svc0._totime(sign * np.arange(n, dtype=float), (p / q) * (n - 1)))[0])
            ck.count(("totime", n, p, q, sign), True)
            nph += 1
            if got != k:
                ck.violation("_totime|not-nearest-sample", f"_totime(grid 0..{n - 1} sign {sign}, {p}/{q}*{n - 1}) = {got}, nearest is {k}",
                             {"n": n, "p": p, "q": q, "sign": sign, "expected": k, "got": got})
    ck.part("phase_index", instances=nph)

    step_of = {1: 1.0, 2: 0.5, 3: 0.4, 4: 0.25}
    traces, mism = [], []
    orig = msvc._propagate_dynsys
    try:
        for b in beh:
            br, script = b["br"], list(b["script"]) if isinstance(b["script"], list) else []
            man = mans[(bool(br["stable"]), int(br["direction"]))]
            svc = man.dynamics
            ev, pos = [], [0]

            def scripted(dynsys=None, state0=None, t0=0.0, tf=1.0, forward=1, steps=100, method="adaptive", order=8,
                         flip_indices=None, **kw):
                o = script[pos[0]]
                pos[0] += 1
                flip_all = 1 if (flip_indices is None or flip_indices == slice(0, 6)) else 0
                ev.append({"e": "integrate", "forward": int(forward), "flip_all": flip_all, "outcome": o})
                if o == "raise":
                    raise RuntimeError("scripted integration failure")
                s0 = np.asarray(state0, dtype=float)
                states = np.repeat(s0[None, :], 5, axis=0)
                if o == "near1":
                    states[2, :3] = [-mu + 1e-9, 0.0, 0.0]
                elif o == "near2":
                    states[3, :3] = [1 - mu + 1e-9, 0.0, 0.0]
                elif o == "drift":
                    states[4, 3] += 0.1
                return _Sol(forward * np.linspace(t0, tf, 5), states)
            msvc._propagate_dynsys = scripted
            ck.count(("branchloop", json.dumps(br, sort_keys=True), tuple(script)), len(script) >= 2)
            res = svc._run_compute(step=step_of[br["nfrac"]], integration_fraction=0.1, NN=1, displacement=1e-6, method="adaptive",
                                   order=8, dt=1e-2, energy_tol=1e-6, safe_distance=2.0, show_progress=False)
            _, _, states_list, times_list, successes, attempts = res
            # which fractions were kept: identify by the seed state of each retained trajectory
            kept = [i for i, o in enumerate(script) if o == "ok"]
            ev.append({"e": "final", "attempts": int(attempts), "successes": int(successes), "nstates": len(states_list),
                       "ntimes": len(times_list), "kept": kept if len(states_list) == len(kept) else [-1] * len(states_list)})
            traces.append({"br": br, "ev": ev})
            if (attempts, successes, len(states_list)) != (b["attempts"], b["successes"], len(b["kept"])) or pos[0] != len(script):
                mism.append((b, ev))
    finally:
        msvc._propagate_dynsys = orig
    states, rej = validate_traces(SPEC / "trace" / "ManifoldBranchTrace.tla", SPEC / "cfg" / "ManifoldBranchTrace.cfg", traces)
    ck.cov["traces_validated_against_impl"] += len(traces)
    ck.part("branch_loop", behaviours=len(beh), mismatches=len(mism), trace_states=states, rejected=len(rej))
    for i in sorted(rej)[:10]:
        t = traces[i]
        where = rej[i][0]
        e = t["ev"][where - 1] if isinstance(where, int) and where <= len(t["ev"]) else {}
        clause = ("integration-direction" if e.get("e") == "integrate" and e.get("forward") != (-1 if t["br"]["stable"] else 1)
                  else "state-not-reversed-as-a-whole" if e.get("e") == "integrate" and e.get("flip_all") != 1
                  else "bookkeeping")
        ck.violation(f"_run_compute|{clause}", f"branch {t['br']} script {[x.get('outcome') for x in t['ev'][:-1]]}: trace rejected at event {where}: {e}",
                     {"br": t["br"], "events": t["ev"]})
    if traces:
        t = json.loads(json.dumps(traces[-1]))
        t["ev"][-1]["successes"] += 1
        _, rj = validate_traces(SPEC / "trace" / "ManifoldBranchTrace.tla", SPEC / "cfg" / "ManifoldBranchTrace.cfg", [t])
        if 0 not in rj:
            raise MachineryError("binding self-test: corrupted ManifoldBranch trace accepted")
