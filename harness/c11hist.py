"""C11 add-on: event location through the PUBLIC integrators in call HISTORIES and step-limit configurations that the
model-bound family of c11.py and the add-on c11back.py do not reach.  Decided by TLC (Contracts.tla).

1. closures: the event function is a plain-Python closure produced by one `def` with different captured constants
   (make_plane(0.5), then make_plane(0.0), then make_plane(-0.3)), handed to the same integrator kind one call after the
   other in the same process.  Each call must locate the zero of the function IT was given.
      g_at_hit   |g_k(t_hit, y_hit)| for the closure of call k          bound 1e-6
      hit_time   |t_hit - exact first admissible crossing of plane k|  bound 1e-6
2. no crossing, binding step limits: the event never fires, min_step is set by the user and the span is not a multiple of
   it (the last step is cut below min_step).  "Events are searched for inside the span": the call returns the flow at
   the END of the span, at the end time.
      end_time   |t_last - tmax|                                       bound 1e-12
      on_flow    |y_last - exact flow(tmax)|                           bound 1e-6
"""
from __future__ import annotations

import itertools
import math

import numpy as np

from common import Check, ContractSet


def run(ck: Check):
    import numba
    from numba.typed import List
    import hiten.algorithms.integrators.rk as rk
    import hiten.algorithms.integrators.symplectic as sy
    from hiten.algorithms.dynamics.hamiltonian import create_hamiltonian_system
    from hiten.algorithms.dynamics.rhs import create_rhs_system
    from hiten.algorithms.polynomial.base import _create_encode_dict_from_clmo, _init_index_tables
    from hiten.algorithms.types.configs import EventConfig
    from hiten.algorithms.types.options import EventOptions
    import polyutil as pu

    rot = create_rhs_system(numba.njit(cache=False)(lambda t, y: np.array([y[1], -y[0]])), 2, "rotation")
    psi, clmo = _init_index_tables(2)
    enc = _create_encode_dict_from_clmo(clmo)
    ks = pu.enum(2)
    blk = np.zeros(len(ks), dtype=np.complex128)
    for i, k in enumerate(ks):
        if tuple(k) in ((2, 0, 0, 0, 0, 0), (0, 0, 0, 2, 0, 0)):
            blk[i] = 0.5
    H = List()
    H.append(np.zeros(1, dtype=np.complex128))
    H.append(np.zeros(6, dtype=np.complex128))
    H.append(blk)
    ham = create_hamiltonian_system(H, 2, psi, clmo, enc, n_dof=3)          # q1' = p1, p1' = -q1

    def make_plane(c):
        def g(t, y):
            return y[0] - c
        return g

    # x(t) = cos t, first zero of cos t - c for t > 0 is acos(c) (downward crossing)
    cs = ContractSet(ck, "event_contracts_histories_and_step_limits")
    T = 3.0
    drivers = [("fixed8", lambda: rk.FixedRK(order=8), "grid", False), ("rk45", lambda: rk._RK45(rtol=1e-11, atol=1e-11, max_step=0.2), "adaptive", False),
               ("dop853", lambda: rk._DOP853(rtol=1e-11, atol=1e-11, max_step=0.2), "adaptive", False),
               ("rk45_ham", lambda: rk._RK45(rtol=1e-11, atol=1e-11, max_step=0.2), "adaptive", True),
               ("dop853_ham", lambda: rk._DOP853(rtol=1e-11, atol=1e-11, max_step=0.2), "adaptive", True),
               ("symplectic4", lambda: sy._ExtendedSymplectic(order=4), "symp", True)]
    for dname, mk, kind, hamlike in drivers:
        dim, ip = (6, 3) if hamlike else (2, 1)
        system = ham if hamlike else rot
        for k, c in enumerate((0.5, 0.0, -0.3)):
            y0 = np.zeros(dim)
            y0[0] = 1.0
            t_vals = np.linspace(0.0, T, 3001) if kind != "adaptive" else np.array([0.0, T])
            label = f"{dname}|closure-history|call={k}|plane={c}"
            try:
                sol = mk().integrate(system, y0.copy(), t_vals, event_fn=make_plane(c), event_cfg=EventConfig(direction=0, terminal=True),
                                     event_options=EventOptions(xtol=1e-10, gtol=1e-12))
            except Exception as ex:  # noqa
                ck.violation(f"event|{dname}|closure-history|raises:{type(ex).__name__}", f"{label}: {str(ex)[:160]}", {"case": label})
                continue
            t_hit, y_hit = float(sol.times[-1]), np.asarray(sol.states[-1], dtype=float)
            bnd = -35 if kind == "symp" else -60          # see c11back.py: the extended-phase-space scheme is 2nd order in practice
            tr = cs.trace(label, {"g_at_hit": bnd, "hit_time": bnd}, {"driver": dname, "part": "closure", "call": k, "plane": c})
            ck.count(("event-closure", label), True)
            cs.obs(tr, "g_at_hit", abs(y_hit[0] - c))
            cs.obs(tr, "hit_time", abs(t_hit - math.acos(c)))
            if len(ck.cov["samples"]) < 14 and k == 1:
                ck.sample({"event_case": label, "t_hit": t_hit, "t_exact": math.acos(c), "g_at_hit": float(y_hit[0] - c)})

    never = numba.njit(numba.types.float64(numba.types.float64, numba.types.float64[:]), cache=False)(lambda t, y: y[0] - 5.0)
    for order, hamlike in ((5, False), (8, False), (5, True), (8, True)):
        dim, ip = (6, 3) if hamlike else (2, 1)
        system = ham if hamlike else rot
        hmin = 0.05 if order == 5 else 0.25
        for frac in (0.3, 0.7):
            tmax = (10 + frac) * hmin
            y0 = np.zeros(dim)
            y0[0] = 1.0
            label = f"{'rk45' if order == 5 else 'dop853'}{'_ham' if hamlike else ''}|no-crossing|min_step={hmin}|last-step={frac}*min_step"
            try:
                sol = rk.AdaptiveRK(order=order, rtol=1e-4, atol=1e-4, min_step=hmin, max_step=hmin).integrate(
                    system, y0.copy(), np.array([0.0, tmax]), event_fn=never, event_cfg=EventConfig(direction=0, terminal=True),
                    event_options=EventOptions(xtol=1e-10, gtol=1e-12))
            except Exception as ex:  # noqa
                ck.violation(f"event|{label.split('|')[0]}|no-crossing|raises:{type(ex).__name__}", f"{label}: {str(ex)[:160]}", {"case": label})
                continue
            t_last, y_last = float(sol.times[-1]), np.asarray(sol.states[-1], dtype=float)
            tr = cs.trace(label, {"end_time": -120, "on_flow": -60}, {"driver": label.split("|")[0], "part": "no-crossing", "min_step": hmin})
            ck.count(("event-no-crossing", label), True)
            cs.obs(tr, "end_time", abs(t_last - tmax))
            cs.obs(tr, "on_flow", max(abs(y_last[0] - math.cos(tmax)), abs(y_last[ip] + math.sin(tmax))))
    # 3. fixed-step drivers on a NON-UNIFORM (strictly increasing) grid: the step is the spacing of each interval
    g03 = numba.njit(numba.types.float64(numba.types.float64, numba.types.float64[:]), cache=False)(lambda t, y: y[0] - 0.3)
    grid = np.concatenate([np.arange(0, 100) * 0.01, 1.0 + np.arange(0, 101) * 0.02])          # dt = 0.01 on [0, 1], 0.02 on [1, 3]
    for order, hamlike, evname in itertools.product((4, 8), (False, True), ("x=0.3", "never")):
        dim, ip = (6, 3) if hamlike else (2, 1)
        y0 = np.zeros(dim)
        y0[0] = 1.0
        label = f"fixed{order}{'_ham' if hamlike else ''}|non-uniform-grid|event={evname}"
        try:
            sol = rk.FixedRK(order=order).integrate(ham if hamlike else rot, y0.copy(), grid, event_fn=(g03 if evname != "never" else never),
                                                    event_cfg=EventConfig(direction=0, terminal=True), event_options=EventOptions(xtol=1e-10, gtol=1e-12))
        except Exception as ex:  # noqa
            ck.notes.append(f"{label} raised {type(ex).__name__}: {str(ex)[:120]} (a rejection is allowed)")
            continue
        t_last, y_last = float(sol.times[-1]), np.asarray(sol.states[-1], dtype=float)
        t_want = math.acos(0.3) if evname != "never" else float(grid[-1])
        tr = cs.trace(label, {"hit_time": -50, "on_flow": -50}, {"driver": f"fixed{order}{'_ham' if hamlike else ''}", "part": "non-uniform-grid"})
        ck.count(("event-nonuniform", label), True)
        cs.obs(tr, "hit_time", abs(t_last - t_want))
        cs.obs(tr, "on_flow", max(abs(y_last[0] - math.cos(t_last)), abs(y_last[ip] + math.sin(t_last))))
    cs.decide(key_fn=lambda tr, n: f"event|{tr['data']['driver']}|{tr['data']['part']}|{n}")
    cs.selftest()
