"""C20 -- cached and reloaded objects always reflect their current logical state.

Models: spec/objects/ServiceCache.tla (make_key as written), spec/objects/OrbitObject.tla,
        spec/objects/ManifoldObject.tla, spec/objects/CMObject.tla, spec/objects/SystemObject.tla
        (+ MC instances), spec/trace/OrbitObjectTrace.tla.

  1. make_key: TLC enumerates a universe of argument tuples shaped like the library's call sites,
     predicts every key (conformance with the live make_key, value by value) and decides
     "distinct content => distinct key"; collisions are confirmed on the real make_key.
  2. OrbitObject: TLC proves the requirement for the repaired design and enumerates histories of
     the transcription of the working tree (one shortest history per distinct state; -simulate
     walks).  Each history is executed on a REAL orbit and, step by step, on a freshly constructed
     twin in the logical state the history defines; `returned == twin's` (bit-for-bit stamps) and
     `public state == twin's` are the oracle; hits/misses are logged by a wrapped get_or_create.
  3. The recorded call/return events are validated by TLC against OrbitObjectTrace (Strict =
     transcription incl. its prediction of which returns are stale; Loose = requirement only).
  4. Manifold / centre manifold / system / libration-point histories, same oracle.
"""
from __future__ import annotations

import json
import logging
import os
import random
import re
import sys
import time

import numpy as np

from common import SPEC, Check, MachineryError, tlc, validate_traces, workdir
from record import CacheRecorder, MemoDynsys, stamp

OBJ = SPEC / "objects"
CFG = SPEC / "cfg"
TRACE = SPEC / "trace" / "OrbitObjectTrace.tla"

TOL = {"loose": 1e-6, "tight": 1e-12}      # "tight" is replaced by the live library default at start-up
PER = {"P1": 2.0, "P2": 2.0 * (1.0 + 4e-6)}      # two DIFFERENT user periods that agree to 4e-6 relative (a refined guess)
STEPS = {"s1": 40, "s2": 60}
ORD = {"o4": 4, "o6": 6, "o8": 8}

MAX_REPORT = 12
_T0 = time.time()


def dbg(*a):
    if os.environ.get("VERIF_DEBUG"):
        print(f"[c20 {time.time() - _T0:7.1f}s]", *a, file=sys.stderr, flush=True)


# ======================================================================================
# 1. make_key
# ======================================================================================

_ATOM = {"1": 1e-6, "2": 1e-12, "None": None}


def _py(v):
    """TLA+ value tree -> python object."""
    tag, pay = v
    if tag == "atom":
        return _ATOM.get(pay, pay)
    if tag == "tup":
        return tuple(_py(x) for x in pay)
    if tag == "list":
        return np.array([_py(x) for x in pay], dtype=float) if all(x[0] == "atom" for x in pay) and len(pay) == 2 \
            else [_py(x) for x in pay]
    if tag == "dict":
        return {k: _py(x) for k, x in pay}
    raise MachineryError(f"bad value tree {v!r}")


def _tree(k):
    """python key component -> TLA+ value tree (for comparison with the model's prediction)."""
    if isinstance(k, tuple):
        return ["tup", [_tree(x) for x in k]]
    for name, val in _ATOM.items():
        if val is not None and isinstance(k, (float, np.floating)) and float(k) == val:
            return ["atom", name]
    if k is None:
        return ["atom", "None"]
    if isinstance(k, str):
        return ["atom", k]
    return ["atom", repr(k)]


def real_make_key(args):
    from hiten.algorithms.types.services.base import _DynamicsServiceBase

    class _Svc(_DynamicsServiceBase):
        pass

    svc = _Svc("obj")
    return svc.make_key(*[_py(a) for a in args])


def part_make_key(ck: Check) -> str:
    """Returns the DictMode that conforms to the live make_key ("keys", "items" or "other")."""
    conforming = None
    results = {}
    for mode in ("keys", "items"):
        r = tlc(OBJ / "MCServiceCache.tla", CFG / f"ServiceCache.emit{mode}.cfg", timeout=600, workers=4)
        if r.error or not r.finished:
            raise MachineryError(f"ServiceCache emission ({mode}) failed: {r.error}\n{r.out[-2000:]}")
        recs = r.printed()
        vals = [x for x in recs if x["kind"] == "value"]
        cols = [x for x in recs if x["kind"] == "collision"]
        if len(vals) < 100:
            raise MachineryError("ServiceCache universe unexpectedly small")
        bad = 0
        for v in vals:
            key = real_make_key(v["args"])
            got = [key[0]] + [_tree(x) for x in key[2:]]       # key[1] is the domain object
            if key[1] != "obj" or got != v["key"]:
                bad += 1
        results[mode] = (vals, cols, bad)
        if bad == 0 and conforming is None:
            conforming = mode
    mode = conforming or "other"
    vals, cols, _ = results[conforming or "keys"]
    ck.part("make_key", universe=len(vals), model_collisions_keys=len(results["keys"][1]),
            model_collisions_items=len(results["items"][1]), conforming_mode=mode,
            nonconforming_keys=results["keys"][2], nonconforming_items=results["items"][2])
    # requirement decided by TLC on the conforming transcription
    if conforming:
        r = tlc(OBJ / "MCServiceCache.tla", CFG / f"ServiceCache.{conforming}.cfg", timeout=600, workers=4)
        ck.model(f"ServiceCache.{conforming}", r, expect_ok=False)
        if r.invariant_violated not in (None, "DistinctArgsDistinctKeys"):
            raise MachineryError(f"ServiceCache: unexpected invariant failure {r.invariant_violated}")
    # the repaired design must satisfy the requirement
    r = tlc(OBJ / "MCServiceCache.tla", CFG / "ServiceCache.items.cfg", timeout=600, workers=4)
    ck.model("ServiceCache.items(repaired design)", r)
    # oracle on the real code: content classes vs real keys over the whole universe
    by_key: dict = {}
    for v in vals:
        key = real_make_key(v["args"])
        ck.count(("make_key", json.dumps(v["args"])), True)
        by_key.setdefault(key, []).append(v)
    n_coll = 0
    for key, group in by_key.items():
        contents = {json.dumps(g["content"]) for g in group}
        if len(contents) > 1:
            n_coll += 1
            a, b = group[0], next(g for g in group if g["content"] != group[0]["content"])
            cls = _collision_class(a["args"], b["args"])
            ck.violation(f"make_key|{cls}",
                         f"make_key gives the same key to calls that differ in content: "
                         f"{_py_repr(a['args'])} vs {_py_repr(b['args'])} -> {key[2:]!r}",
                         {"object": "make_key", "a": a["args"], "b": b["args"]})
    ck.part("make_key", real_colliding_keys=n_coll)
    ck.sample({"make_key_universe": len(vals), "real_colliding_keys": n_coll, "conforming_mode": mode})
    return mode


def _py_repr(args):
    return repr(tuple(_py(a) for a in args))


def _strip_dict_values(v):
    tag, pay = v
    if tag == "dict":
        return ["dict", sorted(k for k, _ in pay)]
    if tag in ("tup", "list"):
        return ["seq", [_strip_dict_values(x) for x in pay]]
    return v


def _collision_class(a, b):
    if [_strip_dict_values(x) for x in a] == [_strip_dict_values(x) for x in b]:
        return "dict-values-ignored"
    return "distinct-content-same-key"


def replay_make_key(data) -> bool:
    ka, kb = real_make_key(data["a"]), real_make_key(data["b"])
    print(json.dumps({"a": _py_repr(data["a"]), "b": _py_repr(data["b"]), "key_a": repr(ka), "key_b": repr(kb),
                      "collide": ka == kb}, indent=1))
    return ka == kb


# ======================================================================================
# fixtures
# ======================================================================================

class Fx:
    """Built once per process: Earth-Moon system, L1, orbit factories."""

    def __init__(self):
        t0 = time.time()
        logging.disable(logging.CRITICAL)
        import hiten  # noqa: F401
        from hiten.system.base import System
        self.system = System.from_bodies("earth", "moon")
        self.L1 = self.system.get_libration_point(1)
        o = self.new_orbit("lyapunov")
        d = float(o.correction_options.base.convergence.tol)
        if not d < TOL["loose"] / 100:
            raise MachineryError(f"library default correction tolerance {d} is not well below the loose one")
        TOL["tight"] = d
        self.t_import = time.time() - t0

    def new_orbit(self, family):
        if family == "lyapunov":
            return self.L1.create_orbit("lyapunov", amplitude_x=0.01)
        if family == "halo":
            return self.L1.create_orbit("halo", amplitude_z=0.01, zenith="southern")
        raise MachineryError(family)

    @staticmethod
    def opts(orbit, tolname):
        return orbit.correction_options.merge(**{"base.convergence.tol": TOL[tolname]})


def tolname(x):
    for k, v in TOL.items():
        if float(x) == v:
            return k
    return repr(float(x))


# ======================================================================================
# 2. orbit histories: real object vs fresh twins
# ======================================================================================

class OrbitWorld:
    def __init__(self, fx: Fx, family: str, rec: CacheRecorder, wd):
        self.fx, self.family, self.rec, self.wd = fx, family, rec, wd
        g = fx.new_orbit(family)
        self.cls = type(g)
        self.arr: dict[str, np.ndarray] = {}
        self.L0 = (self._keep(g.initial_state), None, None, "tight")
        # the period the corrector finds for the tightly corrected state ("copied from another, already corrected orbit")
        g2 = fx.new_orbit(family)
        g2.correct()
        self.Tc = float(g2.period)
        self.memo: dict = {}
        self.obs_memo: dict = {}
        self.n_files = 0
        self.twin_evals = 0

    def _keep(self, x):
        x = np.array(x, dtype=float)
        s = stamp(x)
        self.arr.setdefault(s, x)
        return s

    # ---- a freshly constructed object in logical state L = (init, period, prop, copt)
    def fresh(self, L):
        o = self.cls(self.fx.L1, initial_state=self.arr[L[0]].copy())
        if L[1] is not None:
            o.period = L[1]
        if L[3] != "tight":
            o.correction_options = Fx.opts(o, L[3])
        if L[2] is not None:
            o.propagate(steps=STEPS[L[2][0]], method=L[2][1], order=ORD[L[2][2]])
        return o

    # ---- one public operation on an object held in `h` (h["o"]); returns the projected outcome
    def do(self, h, op, arg):
        o = h["o"]
        try:
            if op == "SetPeriod":
                h["assigned"] = self.Tc if arg[0] == "T" else PER[arg[0]]
                o.period = h["assigned"]
                return ("none",)
            if op == "Correct":
                r = o.correct(None if arg[0] == "default" else Fx.opts(o, arg[0]))
                h["found"] = 2.0 * float(r.half_period)
                return ("val", stamp((np.asarray(r.x_corrected, dtype=float), float(r.half_period), bool(r.converged))))
            if op == "Propagate":
                return ("val", stamp(o.propagate(steps=STEPS[arg[0]], method=arg[1], order=ORD[arg[2]])))
            if op == "ReadTrajectory":
                return ("val", stamp(o.trajectory))
            if op == "ReadMonodromy":
                return ("val", stamp(np.asarray(o.monodromy)))
            if op == "ComputeStability":
                return ("val", stamp(tuple(np.asarray(x) for x in o.dynamics.compute_stability())))
            if op == "ReadStability":
                return ("val", stamp(np.asarray(o.stability_indices)))
            if op == "ReadEnergy":
                return ("val", stamp(float(o.energy)))
            if op == "ReadPeriod":
                return ("val", stamp(o.period))
            if op == "ReadInit":
                return ("val", stamp(np.asarray(o.initial_state, dtype=float)))
            if op == "ReadCorrOpts":
                return ("val", stamp(float(o.correction_options.base.convergence.tol)))
            if op == "SetCorrOpts":
                o.correction_options = Fx.opts(o, arg[0])
                return ("none",)
            if op == "Save":
                self.n_files += 1
                p = self.wd / f"orbit{self.n_files}.pkl"
                o.save(p)
                h["path"] = p
                return ("none",)
            if op == "Load":
                h["o"] = type(o).load(h["path"])
                return ("none",)
            if op == "LoadInplace":
                o.load_inplace(h["path"])
                return ("none",)
        except Exception as ex:  # noqa -- the outcome class is compared with the twin's
            return ("raise", type(ex).__name__)
        raise MachineryError(f"unknown operation {op}")

    def observe(self, o):
        """Side-effect-free public state."""
        try:
            tr = stamp(o.trajectory)
        except ValueError:
            tr = None
        return (stamp(np.asarray(o.initial_state, dtype=float)), o.period, tr,
                tolname(o.correction_options.base.convergence.tol))

    def obs_of(self, L):
        if L not in self.obs_memo:
            self.obs_memo[L] = self.observe(self.fresh(L))
        return self.obs_memo[L]

    # ---- the same operation on a fresh twin in logical state L: (outcome, L', observation')
    def twin_step(self, L, op, arg, *, memo=True):
        k = (L, op, tuple(arg))
        if memo and k in self.memo:
            return self.memo[k]
        tw = {"o": self.fresh(L)}
        out = self.do(tw, op, arg)
        self.twin_evals += 1
        o = tw["o"]
        obs = self.observe(o)
        if op == "Propagate" and out[0] == "val":
            prop = tuple(arg)
        else:
            prop = L[2] if obs[2] is not None else None
        L2 = (self._keep(o.initial_state), o.period, prop, obs[3] if obs[3] in TOL else L[3])
        res = (out, L2, obs)
        if memo:
            self.memo[k] = res
        return res

    def _hits(self, o_before, o_after, entries):
        ids = {}
        for o in (o_before, o_after):
            ids[id(o.dynamics._cache)] = "dyn"
            ids[id(o._correction._cache)] = "cor"
        out = []
        for e in entries:
            if e["e"] == "goc" and e["cache"] in ids:
                k = e["key"]
                tag = k[2] if len(k) > 2 and isinstance(k[2], str) else "?"
                out.append([ids[e["cache"]], tag, "H" if e["hit"] else "M", k])
        return out

    # ---- execute a history on a real object, comparing with twins at every step
    def replay(self, hist, stop_at_first=False):
        real = {"o": self.fx.new_orbit(self.family)}
        L, savedL = self.L0, None
        events, problems = [], []
        created: dict = {}          # real correction-cache key -> (tolname requested, L at creation)
        diverged = None             # cause key while the object's public state differs from its logical state
        saved_obs, saved_div = None, None
        last_mut = "init"
        for k, st in enumerate(hist):
            op, arg = st["op"], list(st["arg"])
            m = self.rec.mark()
            o_before = real["o"]
            out_r = self.do(real, op, arg)
            hits = self._hits(o_before, real["o"], self.rec.since(m))
            obs_r = self.observe(real["o"])
            # what the operation itself says must be what the object then reports (the twin runs the same code, so these two are
            # checked absolutely): an assigned period is the period; the period after a correction is the one the correction found
            if op == "SetPeriod" and out_r[0] == "none" and real["o"].period != real.get("assigned"):
                problems.append({"key": "orbit.period|assignment-dropped", "step": k, "op": op, "arg": arg, "real": [real["o"].period],
                                 "twin": [real.get("assigned")], "real_state": list(obs_r), "twin_state": [], "hits": []})
            if op == "Correct" and out_r[0] == "val" and real["o"].period != real.get("found"):
                problems.append({"key": "orbit.correct|period-is-not-the-one-the-correction-found", "step": k, "op": op, "arg": arg,
                                 "real": [real["o"].period], "twin": [real.get("found")], "real_state": list(obs_r), "twin_state": [], "hits": []})
            if op == "Save":
                savedL, out_t, L2, obs_t = L, ("none",), L, self.obs_of(L)
            elif op in ("Load", "LoadInplace"):
                if savedL is None:
                    raise MachineryError("history loads before saving")
                out_t, L2 = ("none",), savedL
                obs_t = self.obs_of(L2)
            else:
                out_t, L2, obs_t = self.twin_step(L, op, arg)
            fresh, post = out_r == out_t, obs_r == obs_t
            events.append({"op": op, "arg": arg, "hits": [h[:3] for h in hits], "rk": out_r[0],
                           "fresh": fresh, "post": post})
            # ---------------- diagnosis (structural key of the failing class)
            key = None
            names = ("initial_state", "period", "trajectory", "correction_options")
            comp = [n for n, x, y in zip(names, obs_r, obs_t) if x != y]
            hit_now = any(h[2] == "H" for h in hits)
            if op == "Save":
                saved_obs, saved_div = obs_r, diverged
            if op == "Correct":
                want = L[3] if arg[0] == "default" else arg[0]
                for h in hits:
                    if h[0] == "cor" and h[2] == "M":
                        created[h[3]] = (want, L[:2])
            if not fresh or not post:
                if op in ("Load", "LoadInplace") and obs_r != saved_obs:
                    for n, x, y in zip(names, obs_r, saved_obs):
                        if x != y:          # one key per observable that the round trip changed
                            kk = (f"orbit.save-load|stale-{n}-resurrected" if y is None
                                  else f"orbit.save-load|{n}-not-preserved")
                            if key is not None:
                                problems.append({"key": key, "step": k, "op": op, "arg": arg, "real": list(out_r),
                                                 "twin": list(out_t), "real_state": list(obs_r),
                                                 "twin_state": list(obs_t), "hits": []})
                            key = kk
                elif op in ("Load", "LoadInplace"):
                    key = saved_div or f"orbit.{op}|post-state-{'+'.join(comp)}-differs"
                elif diverged:
                    key = diverged                      # consequence of an earlier, already attributed divergence
                elif op == "Correct":
                    for h in hits:
                        if h[0] == "cor" and h[2] == "H" and h[3] in created:
                            c_tol, c_L = created[h[3]]
                            if c_tol != want:
                                key = "make_key|dict-values-ignored:orbit.correct"
                            elif not fresh:
                                key = "orbit.correct|stale-result-after-state-change"
                            else:
                                key = "orbit.correct|cache-hit-skips-apply_correction"
                    key = key or f"orbit.Correct|differs-from-fresh-twin-after-{last_mut}"
                elif op == "Propagate" and fresh and comp == ["trajectory"] and hit_now:
                    key = "orbit.propagate|_trajectory-not-updated-on-cache-hit"
                elif not fresh and not hit_now and last_mut in ("Load", "LoadInplace") and \
                        op in ("ReadStability", "ReadTrajectory"):
                    key = "orbit.save-load|stale-%s-resurrected" % ("trajectory" if op == "ReadTrajectory" else "stability_info")
                elif not fresh and hit_now:
                    key = f"orbit.{op}|stale-cache-entry-after-{last_mut}"
                elif not fresh:
                    key = f"orbit.{op}|differs-from-fresh-twin-after-{last_mut}"
                else:
                    key = f"orbit.{op}|post-state-{'+'.join(comp)}-differs"
            if key is not None:
                problems.append({"key": key, "step": k, "op": op, "arg": arg, "real": list(out_r), "twin": list(out_t),
                                 "real_state": list(obs_r), "twin_state": list(obs_t),
                                 "hits": [h[:3] for h in hits]})
                if stop_at_first:
                    break
            if not post:
                diverged = diverged or key
            else:
                diverged = None
            if op in ("SetPeriod", "Correct", "SetCorrOpts", "Load", "LoadInplace"):
                last_mut = op
            L = L2
        return events, problems


def live_flags(w: OrbitWorld) -> dict:
    """Which transcription variant the working tree implements (micro-probes on a real object)."""
    f = {}
    h = {"o": w.fx.new_orbit(w.family)}
    for op, arg in (("Correct", ["default"]), ("Propagate", ["s1", "fixed", "o4"]), ("Propagate", ["s2", "fixed", "o4"])):
        w.do(h, op, arg)
    a = w.do(h, "Propagate", ["s1", "fixed", "o4"])
    f["TrajOnHit"] = (w.do(h, "ReadTrajectory", []) == a)
    T = h["o"].period
    w.do(h, "SetPeriod", ["P1"])
    w.do(h, "Correct", ["default"])
    f["CorrKeyState"] = (h["o"].period == T)
    w.do(h, "SetCorrOpts", ["loose"])
    w.do(h, "Save", [])
    w.do(h, "Load", [])
    f["SaveOpts"] = tolname(h["o"].correction_options.base.convergence.tol) == "loose"
    w.do(h, "Propagate", ["s1", "fixed", "o4"])
    w.do(h, "Save", [])
    w.do(h, "Load", [])
    w.do(h, "SetPeriod", ["P2"])
    w.do(h, "Save", [])
    w.do(h, "Load", [])
    f["LeftoverFix"] = w.do(h, "ReadTrajectory", [])[0] == "raise"
    # a correction that changes the state but not the period (the period was pre-set to the very value the corrector finds)
    h = {"o": w.fx.new_orbit(w.family)}
    w.do(h, "SetPeriod", ["T", "tight"])
    w.do(h, "Propagate", ["s1", "fixed", "o4"])
    w.do(h, "Correct", ["default"])
    f["CorrInvalidates"] = w.do(h, "ReadTrajectory", [])[0] == "raise"
    return f


def make_cfg(template: str, flags: dict, wd, name: str):
    """Instantiate a static cfg template with the transcription variant of the working tree
    (only the constants named in `flags` that occur in the template are rewritten)."""
    s = (CFG / template).read_text()
    for k, v in flags.items():
        v = ('"%s"' % v) if isinstance(v, str) else str(v).upper()
        s, n = re.subn(rf"^(\s*{k}\s*=\s*).*$", lambda mm: mm.group(1) + v, s, flags=re.M)
        if n > 1:
            raise MachineryError(f"cfg template {template}: constant {k} occurs {n} times")
    p = wd / name
    p.write_text(s)
    return p


def drop_prefixes(hists):
    """Keep only histories that are not a proper prefix of another one (every step of a replayed
    history is checked, so prefixes add nothing)."""
    keyed = sorted({json.dumps([[s["op"], s["arg"]] for s in h]): h for h in hists if h}.items())
    out = []
    for i, (k, h) in enumerate(keyed):
        stem = k[:-1] + ","
        if i + 1 < len(keyed) and keyed[i + 1][0].startswith(stem):
            continue
        out.append(h)
    return out


def part_orbit(ck: Check, fx: Fx, rec: CacheRecorder, dictmode: str, rnd: random.Random):
    wd = workdir("c20")
    worlds = {"lyapunov": OrbitWorld(fx, "lyapunov", rec, wd)}
    if not ck.quick:
        worlds["halo"] = OrbitWorld(fx, "halo", rec, wd)
    w0 = worlds["lyapunov"]
    flags = live_flags(w0)
    flags["DictMode"] = dictmode if dictmode in ("keys", "items") else "keys"
    ck.part("orbit_model", live_flags=dict(flags))

    dbg("flags")
    # (a) the repaired design satisfies the requirement (exhaustive within the bound)
    r = tlc(OBJ / "MCOrbitObject.tla", CFG / f"OrbitObject.repaired.{ck.tier}.cfg", timeout=1500)
    ck.model(f"OrbitObject.repaired.{ck.tier}", r)
    dbg("repaired done")
    # (b) the transcription of the working tree: structural invariants + emission of histories
    cfg = make_cfg(f"OrbitObject.asis.{ck.tier}.cfg", flags, wd, "OrbitObject.live.cfg")
    r = tlc(OBJ / "MCOrbitObject.tla", cfg, timeout=1500, workers=1)      # 1 worker: reproducible choice of histories
    ck.model(f"OrbitObject.live.{ck.tier}", r)
    hists = [h for h in r.printed() if isinstance(h, list)]
    n_states = len(hists)
    model_stale = sum(1 for h in hists if h and h[-1]["stale"])
    hists = drop_prefixes(hists)
    dbg("emission done")
    # (b') deep exploration behind a prefix that re-loads the object from disk
    r = tlc(OBJ / "MCOrbitObject.tla", CFG / f"OrbitObject.repaired.deep{ck.tier}.cfg", timeout=1500)
    ck.model(f"OrbitObject.repaired.deep{ck.tier}", r)
    cfgd = make_cfg(f"OrbitObject.asis.deep{ck.tier}.cfg", flags, wd, "OrbitObject.livedeep.cfg")
    r = tlc(OBJ / "MCOrbitObject.tla", cfgd, timeout=1500, workers=1)
    ck.model(f"OrbitObject.live.deep{ck.tier}", r)
    deep = drop_prefixes([h for h in r.printed() if isinstance(h, list)])
    model_stale += sum(1 for h in deep if h and h[-1]["stale"])
    # (c) the requirement on the live transcription: TLC's verdict is a prediction, confirmed below on the code
    cfgr = make_cfg("OrbitObject.asis.req.cfg", flags, wd, "OrbitObject.livereq.cfg")
    rr = tlc(OBJ / "MCOrbitObject.tla", cfgr, timeout=900, workers=8)
    ck.model("OrbitObject.live.requirement", rr, expect_ok=False)
    ck.part("orbit_model", histories_emitted=n_states, maximal_histories=len(hists), deep_histories=len(deep), model_predicts_stale=model_stale,
            tlc_requirement_verdict_on_live_transcription=rr.invariant_violated or "holds")
    dbg("req done")
    # (d) long random walks
    cfgs = make_cfg("OrbitObject.asis.sim.cfg", flags, wd, "OrbitObject.livesim.cfg")
    nwalks = 120 if ck.quick else 800
    rs = tlc(OBJ / "MCOrbitObject.tla", cfgs, simulate=f"num={nwalks}", depth=31, seed=ck.seed, workers=1, timeout=900)
    if rs.error:
        raise MachineryError(f"simulation failed: {rs.error}\n{rs.out[-2000:]}")
    walks = [h for h in rs.printed() if isinstance(h, list) and len(h) == 30]
    if len(walks) < nwalks:
        raise MachineryError(f"simulation produced only {len(walks)} walks")

    dbg("sim done")
    # (d') transition cover x read battery (MCOrbitProbe): every writer out of every core state, then every read
    cfgp = make_cfg(f"OrbitProbe.asis.{ck.tier}.cfg", flags, wd, "OrbitProbe.live.cfg")
    rp = tlc(OBJ / "probe" / "MCOrbitProbe.tla", cfgp, timeout=1500, workers=1)
    ck.model(f"OrbitProbe.live.{ck.tier}", rp)
    probes = [h for h in rp.printed() if isinstance(h, list)]
    if not probes:
        raise MachineryError("MCOrbitProbe emitted no histories")
    # the save/load family behind the deep prefix: two more writers, a (re-)load, every read
    cfgpd = make_cfg(f"OrbitProbe.asis.deep{ck.tier}.cfg", flags, wd, "OrbitProbe.livedeep.cfg")
    rpd = tlc(OBJ / "probe" / "MCOrbitProbe.tla", cfgpd, timeout=1500, workers=1)
    ck.model(f"OrbitProbe.live.deep{ck.tier}", rpd)
    dprobes = [h for h in rpd.printed() if isinstance(h, list)]
    if not dprobes:
        raise MachineryError("MCOrbitProbe (deep prefix) emitted no histories")
    ck.part("orbit_model", probe_histories=len(probes), deep_probe_histories=len(dprobes))
    probes = probes + dprobes
    hists = rnd.sample(hists, min(len(hists), 1000 if ck.quick else 8000))
    deep = rnd.sample(deep, min(len(deep), 300 if ck.quick else 2000))
    jobs = [("lyapunov", h) for h in hists] + [("lyapunov", h) for h in deep] + [("lyapunov", h) for h in walks] \
        + [("lyapunov", h) for h in probes]
    if "halo" in worlds:
        sub = rnd.sample(hists, min(len(hists), 1500))
        jobs += [("halo", h) for h in sub] + [("halo", h) for h in walks[: len(walks) // 4]]

    traces, viol, notes = [], {}, {"model_stale_real_fresh": 0, "model_fresh_real_stale": 0, "hit_pred_mismatch": 0}
    t0 = time.time()
    for fam, h in jobs:
        w = worlds[fam]
        events, problems = w.replay(h)
        rec.clear()
        ck.count((fam, json.dumps([[s["op"], s["arg"]] for s in h])), len(h) >= 3)
        traces.append({"fam": fam, "ev": events})
        for e, s in zip(events, h):
            if s["stale"] and e["fresh"]:
                notes["model_stale_real_fresh"] += 1
            if not s["stale"] and not e["fresh"]:
                notes["model_fresh_real_stale"] += 1
            if [x[:3] for x in s["hits"]] != e["hits"]:
                notes["hit_pred_mismatch"] += 1
        for p in problems:
            if p["key"] not in viol:
                viol[p["key"]] = (fam, h[: p["step"] + 1], p)
    ck.part("orbit_replay", histories=len(jobs), walks=len(walks), steps=sum(len(h) for _, h in jobs),
            wall_s=round(time.time() - t0, 1), twin_evaluations=sum(w.twin_evals for w in worlds.values()),
            distinct_logical_states=sum(len(w.obs_memo) for w in worlds.values()), **notes)

    dbg("replay done")
    # determinism of the twin oracle: re-evaluate memoised twin steps on brand-new objects
    nondet = 0
    for w in worlds.values():
        keys = list(w.memo)
        for k in rnd.sample(keys, min(len(keys), 60)):
            again = w.twin_step(k[0], k[1], list(k[2]), memo=False)
            if again != w.memo[k]:
                nondet += 1
    ck.part("orbit_replay", twin_determinism_rechecks=min(60, len(w0.memo)), nondeterministic=nondet)
    if nondet:
        raise MachineryError("twin oracle is not deterministic (same inputs, different bits)")

    dbg("determinism done")
    # (e) code -> spec: TLC validates the recorded events
    lyap = [t for t in traces if t["fam"] == "lyapunov"]
    tcfg = {m: make_cfg(f"OrbitObjectTrace.{m}.cfg", flags, wd, f"OrbitObjectTrace.{m}.live.cfg") for m in ("Strict", "Loose")}
    states, srej = validate_traces(TRACE, tcfg["Strict"], traces, timeout=3000)
    _, lrej = validate_traces(TRACE, tcfg["Loose"], traces, timeout=3000)
    ck.cov["traces_validated_against_impl"] += len(traces)
    ck.part("orbit_trace_validation", traces=len(traces), states=states, strict_rejected=len(srej),
            loose_rejected=len(lrej))
    # requirement-level rejection == a problem found by the step-by-step comparison
    py_bad = {i for i, t in enumerate(traces) if any(not (e["fresh"] and e["post"]) for e in t["ev"])}
    if set(lrej) != py_bad:
        raise MachineryError(f"TLC (Loose) and the harness disagree on which traces violate the requirement: "
                             f"{sorted(set(lrej) ^ py_bad)[:5]}")
    only_strict = [i for i in srej if i not in lrej]
    if only_strict:
        i = only_strict[0]
        ck.notes.append(f"{len(only_strict)} trace(s) diverge from the transcription without violating the requirement, "
                        f"e.g. family={jobs[i][0]} history={[[s['op'], s['arg']] for s in jobs[i][1]]} at event {srej[i][0]}")
    for key, (fam, h, p) in list(viol.items())[:MAX_REPORT]:
        ck.violation(key, f"{fam} orbit, history {[s['op'] + ('(' + ','.join(s['arg']) + ')' if s['arg'] else '') for s in h]}: "
                          f"step {p['step']} {p['op']} returned {p['real']} / state {p['real_state']}, a freshly constructed "
                          f"orbit in the same logical state gives {p['twin']} / state {p['twin_state']}",
                     {"object": "orbit", "family": fam, "history": [[s["op"], s["arg"]] for s in h], "problem": p})
    if traces:
        ck.sample({"history": [[e["op"], e["arg"]] for e in traces[len(traces) // 2]["ev"]][:8],
                   "events": traces[len(traces) // 2]["ev"][:3]})

    dbg("trace validation done")
    # (f) binding self-test: corrupted traces must be rejected by the strict trace spec
    good = [i for i, t in enumerate(traces) if i not in srej and len(t["ev"]) >= 4
            and any(e["hits"] for e in t["ev"])]
    if good:
        t1 = json.loads(json.dumps(traces[rnd.choice(good)]))
        t1["ev"][-1]["fresh"] = not t1["ev"][-1]["fresh"]                     # corruption of the LAST event
        t2 = json.loads(json.dumps(traces[rnd.choice(good)]))
        for e in t2["ev"]:
            if e["hits"]:
                e["hits"][0][2] = "H" if e["hits"][0][2] == "M" else "M"      # lie about a hit
                break
        t3 = json.loads(json.dumps(traces[rnd.choice(good)]))
        idx = next(i for i, e in enumerate(t3["ev"]) if e["hits"])
        t3["ev"][idx]["rk"] = "raise"
        _, rj = validate_traces(TRACE, tcfg["Strict"], [t1, t2, t3])
        if len(rj) != 3:
            raise MachineryError(f"binding self-test: corrupted traces accepted by OrbitObjectTrace ({sorted(rj)})")
        ck.part("selftest", corrupted_traces_rejected=3)
    return flags


def replay_orbit(fx, rec, data) -> bool:
    wd = workdir("c20r")
    w = OrbitWorld(fx, data["family"], rec, wd)
    h = [{"op": o, "arg": a} for o, a in data["history"]]
    events, problems = w.replay(h)
    print(json.dumps({"events": events, "problems": problems}, indent=1, default=str))
    return bool(problems)


# ======================================================================================
# 4. manifold / system / libration point / centre manifold: same oracle, smaller worlds
# ======================================================================================

class SmallWorld:
    """Common replay loop: real object(s) in a holder, twin step on freshly built objects."""
    name = "?"

    def __init__(self, fx, rec, wd):
        self.fx, self.rec, self.wd = fx, rec, wd
        self.memo = {}
        self.n_files = 0
        self.twin_evals = 0

    # to be provided: new_real() -> holder; fresh(L) -> holder; do(h, op, arg) -> outcome;
    # observe(h) -> tuple; step_logical(L, op, arg, out) -> L'; cache_of(h) -> cache service; L0; diagnose(...)
    def twin_step(self, L, op, arg, memo=True):
        k = (L, op, tuple(arg))
        if memo and k in self.memo:
            return self.memo[k]
        h = self.fresh(L)
        out = self.do(h, op, arg)
        self.twin_evals += 1
        res = (out, self.step_logical(L, op, arg, out), self.observe(h))
        if memo:
            self.memo[k] = res
        return res

    def top_hit(self, h_before_caches, entries):
        for e in entries:
            if e["e"] == "goc" and e["depth"] == 0 and e["cache"] in h_before_caches:
                return "H" if e["hit"] else "M"
        return "-"

    def replay(self, hist, init=None):
        h = self.new_real(init)
        L = self.L0(init)
        events, problems = [], []
        diverged = None
        for k, st in enumerate(hist):
            op, arg = st["op"], list(st["arg"])
            caches = {id(c) for c in self.caches_of(h)}
            m = self.rec.mark()
            out_r = self.do(h, op, arg)
            hit = self.top_hit(caches, self.rec.since(m))
            obs_r = self.observe(h)
            out_t, L2, obs_t = self.twin_step(L, op, arg)
            fresh, post = out_r == out_t, obs_r == obs_t
            events.append({"op": op, "arg": arg, "hit": hit, "fresh": fresh, "post": post})
            if not fresh or not post:
                # a step taken while the object already differs from its logical state inherits the cause
                key = diverged if (diverged and (fresh or op.startswith("Read"))) else \
                    self.diagnose(op, arg, hit, fresh, post, L, hist[:k + 1])
                problems.append({"key": key, "step": k, "op": op, "arg": arg, "real": list(out_r), "twin": list(out_t),
                                 "real_state": list(obs_r), "twin_state": list(obs_t), "hit": hit})
                if not post:
                    diverged = diverged or key
            if post:
                diverged = None
            L = L2
        return events, problems


class ManifoldWorld(SmallWorld):
    name = "manifold"
    NSTM = {"n1": 300, "n2": 400}
    PAR = {"cA": 1e-6, "cB": 1e-5}

    def __init__(self, fx, rec, wd):
        super().__init__(fx, rec, wd)
        o = fx.new_orbit("lyapunov")
        o.correct()
        self.cls = type(o)
        self.x = np.array(o.initial_state, dtype=float)
        T = float(o.period)
        self.per = {"T": T, "P1": 1.25 * T, "P2": 1.5 * T}     # arcs on which the unstable direction stays real
        self.pername = {v: k for k, v in self.per.items()}

    def L0(self, init):
        return ("T", None)

    def _pair(self, per):
        o = self.cls(self.fx.L1, initial_state=self.x.copy())
        o.period = self.per[per]
        return {"orbit": o, "m": o.manifold(stable=False, direction="positive")}

    def new_real(self, init=None):
        return self._pair("T")

    def fresh(self, L):
        return self._pair(L[0])

    def result_at(self, lastC):
        """What manifold.result must hold: the outcome of compute(c) on a fresh manifold of the orbit as it
        was when compute(c) was called."""
        if lastC is None:
            return None
        if not hasattr(self, "res_memo"):
            self.res_memo = {}
        if lastC not in self.res_memo:
            h = self._pair(lastC[1])
            self.res_memo[lastC] = self.do(h, "Compute", [lastC[0]])
        out = self.res_memo[lastC]
        return out[1] if out[0] == "val" else None

    def twin_step(self, L, op, arg, memo=True):
        # the twin is built WITHOUT history (no compute() on it): manifold.result is taken from result_at
        if op == "ReadResult":
            r = self.result_at(L[1])
            return (("none",) if r is None else ("val", r)), L, (L[0], r)
        out, L2, obs = super().twin_step(L, op, arg, memo)
        return out, L2, (obs[0], self.result_at(L2[1]))

    def caches_of(self, h):
        return [h["m"].dynamics._cache]

    def live_flags(self):
        """which transcription variant the working tree implements (micro-probes on real objects)"""
        h = self._pair("T")
        a = self.do(h, "Compute", ["cA"])
        self.do(h, "Compute", ["cB"])
        self.do(h, "Compute", ["cA"])
        f = {"ResultOnHit": self.do(h, "ReadResult", []) == a}
        h = self._pair("T")
        self.do(h, "ComputeStm", ["n1"])
        self.do(h, "OrbitSetPeriod", ["P1"])
        m = self.rec.mark()
        self.do(h, "ComputeStm", ["n1"])
        f["KeyHasOrbitState"] = self.top_hit({id(c) for c in self.caches_of(h)}, self.rec.since(m)) == "M"
        return f

    def do(self, h, op, arg):
        m = h["m"]
        try:
            if op == "OrbitSetPeriod":
                h["orbit"].period = self.per[arg[0]]
                return ("none",)
            if op == "ComputeStm":
                return ("val", stamp(tuple(np.asarray(x) for x in m.dynamics.compute_stm(steps=self.NSTM[arg[0]]))))
            if op == "Compute":
                r = m.compute(step=0.5, integration_fraction=0.05, dt=1e-2, method="fixed", order=4,
                              displacement=self.PAR[arg[0]], show_progress=False)
                return ("val", stamp((list(r[2]), list(r[3]), int(r[4]), int(r[5]))))
            if op == "ReadResult":
                r = m.result
                return ("none",) if r is None else ("val", stamp((list(r[2]), list(r[3]), int(r[4]), int(r[5]))))
            if op == "ReadEigenvalues":
                return ("val", stamp(tuple(np.asarray(x) for x in m.dynamics.eigenvalues)))
            if op == "NewManifold":
                h["m"] = h["orbit"].manifold(stable=False, direction="positive")
                return ("none",)
            if op == "SaveLoad":
                self.n_files += 1
                p = self.wd / f"manifold{self.n_files}.pkl"
                m.save(p)
                h["m"] = type(m).load(p)
                h["orbit"] = h["m"].generating_orbit
                return ("none",)
        except Exception as ex:  # noqa
            return ("raise", type(ex).__name__)
        raise MachineryError(op)

    def observe(self, h):
        r = h["m"].result
        return (self.pername.get(h["orbit"].period, h["orbit"].period),
                None if r is None else stamp((list(r[2]), list(r[3]), int(r[4]), int(r[5]))))

    def step_logical(self, L, op, arg, out):
        per, lastC = L
        if op == "OrbitSetPeriod":
            return (arg[0], lastC)
        if op == "Compute" and out[0] == "val":
            return (per, (arg[0], per))
        if op == "NewManifold":
            return (per, None)
        return L

    def diagnose(self, op, arg, hit, fresh, post, L, prefix):
        # orbit version after each step, and the steps since the manifold's cache was last emptied
        per, pers, start = "T", [], 0
        for i, st in enumerate(prefix):
            if st["op"] == "OrbitSetPeriod":
                per = st["arg"][0]
            if st["op"] in ("NewManifold", "SaveLoad") and i < len(prefix) - 1:
                start = i + 1
            pers.append(per)
        now = pers[-2] if len(pers) > 1 else "T"          # the orbit when this operation ran

        def made_at_other_version(pred):
            """the cache entry this operation relies on was created (first matching step since the cache was
            emptied) for a different orbit version than the current one"""
            for i in range(start, len(prefix) - 1):
                if pred(prefix[i]):
                    return (pers[i - 1] if i > 0 else "T") != now
            return False

        same = lambda st: st["op"] == op and list(st["arg"]) == list(arg)
        uses_stab = lambda st: st["op"] in ("Compute", "ReadEigenvalues")
        if op == "Compute" and fresh and hit == "H":
            return "manifold.compute|_manifold_result-not-updated-on-cache-hit"
        if op == "Compute" and hit == "H":
            return ("manifold.compute|stale-after-orbit-change"
                    if made_at_other_version(same) or made_at_other_version(uses_stab)
                    else "manifold.compute|distinct-requests-share-a-cache-entry")
        if op == "Compute":      # recomputed from a cached STM / stability of the old orbit
            return ("manifold.compute|stale-after-orbit-change" if made_at_other_version(uses_stab)
                    else "manifold.compute|differs-from-fresh-twin")
        if op == "ComputeStm" and hit == "H":
            return ("manifold.compute_stm|stale-after-orbit-change" if made_at_other_version(same)
                    else "manifold.compute_stm|distinct-requests-share-a-cache-entry")
        if op == "ReadEigenvalues":
            return ("manifold.stability|stale-after-orbit-change" if made_at_other_version(uses_stab)
                    else "manifold.stability|differs-from-fresh-twin")
        if op == "SaveLoad":
            return "manifold.save-load|state-not-preserved"
        return f"manifold.{op}|differs-from-fresh-twin"


class SystemWorld(SmallWorld):
    name = "system"
    TF = {"t1": 0.5, "t2": 0.8}
    ST = {"s1": 20, "s2": 30}
    KW = {"none": None, "1": {"rtol": 1e-6}, "2": {"rtol": 1e-12}}
    DELTA = {"1": 1e-6, "2": 0.5}

    def __init__(self, fx, rec, wd):
        super().__init__(fx, rec, wd)
        self.state0 = [float(v) for v in fx.new_orbit("halo").initial_state]

    def L0(self, init):
        return ()

    def new_real(self, init=None):
        from hiten.system.base import System
        s = System.from_bodies("earth", "moon")
        return {"sys": s, "pt": s.get_libration_point(3)}

    def fresh(self, L):
        return self.new_real()

    def caches_of(self, h):
        return [h["sys"].dynamics._cache, h["pt"].dynamics._cache]

    def live_flags(self):
        h = self.new_real()
        a = self.do(h, "ComputeStability", ["1"])
        self.do(h, "ComputeStability", ["2"])
        return {"PipelinePerKey": self.do(h, "ComputeStability", ["1"]) == a}

    def do(self, h, op, arg):
        try:
            if op == "Propagate":
                tr = h["sys"].dynamics.propagate(list(self.state0), tf=self.TF[arg[0]], steps=self.ST[arg[1]],
                                                 method="adaptive", order=8, forward=1, extra_kwargs=self.KW[arg[2]])
                return ("val", stamp(tr))
            if op == "ComputeStability":
                from hiten.algorithms.linalg.options import EigenDecompositionOptions
                r = h["pt"].dynamics.compute_stability(EigenDecompositionOptions(delta=self.DELTA[arg[0]], tol=1e-6))
                return ("val", stamp(tuple(np.asarray(x) for x in r.eigenvalues)))
        except Exception as ex:  # noqa
            return ("raise", type(ex).__name__)
        raise MachineryError(op)

    def observe(self, h):
        return ()

    def step_logical(self, L, op, arg, out):
        return L

    def diagnose(self, op, arg, hit, fresh, post, L, prefix):
        if op == "Propagate" and hit == "H":
            same = [s for s in prefix[:-1] if s["op"] == "Propagate" and list(s["arg"])[:2] == arg[:2]
                    and list(s["arg"])[2] != arg[2] and "none" not in (list(s["arg"])[2], arg[2])]
            if same:
                return "make_key|dict-values-ignored:system.propagate"
            return "system.propagate|stale-cache-entry"
        if op == "ComputeStability" and hit == "H":
            return "libration.compute_stability|cached-pipeline-aliased-across-options"
        return f"system.{op}|differs-from-fresh-twin"


class CMWorld(SmallWorld):
    name = "cm"
    DEG = {"dA": 2, "dB": 3}
    PT = np.array([0.01, 0.0, 0.005, 0.0])
    CHEAP = {"SetDegree", "ReadDegree", "PointGetDegree"}

    heavy = False      # thorough tier: histories with cm.hamiltonian(d) on one shared libration point

    def L0(self, init):
        return (init,)

    def enable_heavy(self):
        """cm.hamiltonian(d) needs the degree-d normal form (minutes of numba compilation and Lie series the
        first time).  Real histories then share ONE libration point (its service cache is emptied before each
        history; the process-wide pipeline registry keeps the computed normal forms), and the value a freshly
        constructed CenterManifold(point, d).hamiltonian(d) returns is computed once per d."""
        from hiten.system.center import CenterManifold
        self.heavy = True
        self.pt_real = self.fx.L1
        self.href = {}
        for name, d in self.DEG.items():
            H = CenterManifold(self.pt_real, d).hamiltonian(d)
            self.href[name] = stamp((int(H.degree), [np.asarray(b) for b in H.poly_H]))

    def _point(self):
        # a private libration point per history: the point caches the CM objects it hands out
        from hiten.system.base import System
        return System.from_bodies("earth", "moon").get_libration_point(1)

    def new_real(self, init):
        if self.heavy:
            pt = self.pt_real
            pt.dynamics.reset()
        else:
            pt = self._point()
        return {"pt": pt, "cm": pt.get_center_manifold(self.DEG[init])}

    def fresh(self, L):
        pt = self._point()
        return {"pt": pt, "cm": pt.get_center_manifold(self.DEG[L[0]])}

    def caches_of(self, h):
        return [h["cm"].dynamics._cache, h["pt"].dynamics._cache]

    def live_flags(self):
        """which transcription variant the working tree implements"""
        from hiten.system.center import CenterManifold
        pt = self._point()
        cm = pt.get_center_manifold(self.DEG["dB"])
        cm.degree = self.DEG["dA"]
        f = {"PointCopies": int(pt.get_center_manifold(self.DEG["dB"]).degree) == self.DEG["dB"]}
        if self.heavy:
            cm = CenterManifold(self.pt_real, self.DEG["dA"])
            cm.hamiltonian(self.DEG["dB"])
            f["HamNoSideEffect"] = int(cm.degree) == self.DEG["dA"]
        return f

    def do(self, h, op, arg):
        cm = h["cm"]
        try:
            if op == "SetDegree":
                cm.degree = self.DEG[arg[0]]
                return ("none",)
            if op == "ReadDegree":
                return ("val", stamp(int(cm.degree)))
            if op == "PointGetDegree":
                return ("val", stamp(int(h["pt"].get_center_manifold(self.DEG[arg[0]]).degree)))
            if op == "Hamiltonian":
                H = cm.hamiltonian(self.DEG[arg[0]])
                return ("val", stamp((int(H.degree), [np.asarray(b) for b in H.poly_H])))
            if op == "ToSynodic":
                return ("val", stamp(np.asarray(cm.to_synodic(self.PT))))
            if op == "SaveLoad":
                self.n_files += 1
                p = self.wd / f"cm{self.n_files}.pkl"
                cm.save(p)
                h["cm"] = type(cm).load(p)
                return ("none",)
        except Exception as ex:  # noqa
            return ("raise", type(ex).__name__)
        raise MachineryError(op)

    def observe(self, h):
        return (int(h["cm"].degree),)

    def step_logical(self, L, op, arg, out):
        return (arg[0],) if op == "SetDegree" else L

    def diagnose(self, op, arg, hit, fresh, post, L, prefix):
        if op == "Hamiltonian" and fresh and hit == "H":
            return "cm.hamiltonian|degree-side-effect-skipped-on-cache-hit"
        if op == "Hamiltonian" and fresh:
            return "cm.hamiltonian|changes-degree-of-the-object"
        if op == "PointGetDegree":
            return "libration.center_manifold|cached-object-degree-mutated"
        if op == "SaveLoad":
            return "cm.save-load|state-not-preserved"
        return f"cm.{op}|differs-from-fresh-twin"

    def twin_step(self, L, op, arg, memo=True):
        # requirement-level meaning of cm.hamiltonian(d): returns H(d); the object's degree is what the
        # user set.  (On a fresh object the library moves the degree to d; whether that side effect is
        # intended is reported separately, see diagnose.)
        if op == "Hamiltonian":
            if not self.heavy:
                raise MachineryError("cm.hamiltonian histories need enable_heavy()")
            return ("val", self.href[arg[0]]), L, (self.DEG[L[0]],)
        return super().twin_step(L, op, arg, memo)


def part_small(ck: Check, world: SmallWorld, mcspec: str, cfg_live: str, cfg_repaired: str, rnd, *,
               budget: int, keep=None, flags=None, wd=None, probe=None):
    r = tlc(OBJ / mcspec, CFG / cfg_repaired, timeout=900, workers=8)
    ck.model(cfg_repaired[:-4], r)
    flags = dict(flags or {})
    if hasattr(world, "live_flags"):
        flags.update(world.live_flags())
        ck.part(world.name + "_replay", live_flags={k: v for k, v in flags.items()})
    cfg = make_cfg(cfg_live, flags, wd or workdir("c20s"), cfg_live)
    r = tlc(OBJ / mcspec, cfg, timeout=900, workers=1)
    ck.model(cfg_live[:-4] + ".live", r)
    hists = drop_prefixes([h for h in r.printed() if isinstance(h, list)])
    if keep:
        hists = [h for h in hists if keep(h)]
    total = len(hists)
    if len(hists) > budget:
        hists = rnd.sample(hists, budget)
    n_probe = 0
    if probe:
        # transition cover x read battery (spec/objects/probe): never sampled away
        pspec, pcfg = probe
        rp = tlc(OBJ / "probe" / pspec, make_cfg(pcfg, flags, wd or workdir("c20s"), pcfg), timeout=900, workers=1)
        ck.model(pcfg[:-4] + ".live", rp)
        ph = [h for h in rp.printed() if isinstance(h, list)]
        if not ph:
            raise MachineryError(f"{pspec} emitted no histories")
        n_probe = len(ph)
        hists = hists + ph
        total += n_probe
    viol, n_stale_model, n_bad, mism = {}, 0, 0, 0
    t0 = time.time()
    for h in hists:
        init = h[0].get("deg0") if h else None
        events, problems = world.replay(h, init)
        world.rec.clear()
        ck.count((world.name, json.dumps([[s["op"], s["arg"]] for s in h])), len(h) >= 3)
        for e, s in zip(events, h):
            n_stale_model += bool(s["stale"])
            n_bad += not e["fresh"]
            if s["hit"] != e["hit"] or (s["stale"] != (not e["fresh"])):
                mism += 1
                if mism <= 6:
                    dbg(world.name, "prediction mismatch", [[x["op"], x["arg"]] for x in h], "at", e, "model", s)
        for p in problems:
            viol.setdefault(p["key"], (h[: p["step"] + 1], p, init))
    ck.part(world.name + "_replay", histories=len(hists), of=total, probe_histories=n_probe, steps=sum(len(h) for h in hists),
            model_stale_steps=n_stale_model, real_stale_steps=n_bad, prediction_mismatches=mism,
            twin_evaluations=world.twin_evals, wall_s=round(time.time() - t0, 1))
    if mism:
        ck.notes.append(f"{world.name}: {mism} step(s) where the transcription's prediction (hit/miss, stale/fresh) "
                        f"differs from the code")
    for key, (h, p, init) in list(viol.items())[:MAX_REPORT]:
        ck.violation(key, f"{world.name}, history {[s['op'] + ('(' + ','.join(s['arg']) + ')' if s['arg'] else '') for s in h]}"
                          f"{' from degree ' + str(init) if init else ''}: step {p['step']} {p['op']} returned {p['real']} / "
                          f"state {p['real_state']}; freshly constructed objects in the same logical state give "
                          f"{p['twin']} / state {p['twin_state']}",
                     {"object": world.name, "history": [[s["op"], s["arg"]] for s in h], "init": init, "problem": p})
    keys = list(world.memo)
    nondet = sum(1 for k in rnd.sample(keys, min(len(keys), 10))
                 if SmallWorld.twin_step(world, k[0], k[1], list(k[2]), memo=False) != world.memo[k])
    if nondet:
        raise MachineryError(f"{world.name}: twin oracle is not deterministic")


WORLDS = {"manifold": ManifoldWorld, "system": SystemWorld, "cm": CMWorld, "cm_hamiltonian": CMWorld, "cm_probe": CMWorld}


def replay_small(fx, rec, data) -> bool:
    w = WORLDS[data["object"]](fx, rec, workdir("c20r"))
    if data["object"] in ("cm_hamiltonian", "cm_probe") or any(o == "Hamiltonian" for o, _ in data["history"]):
        w.enable_heavy()
    events, problems = w.replay([{"op": o, "arg": a} for o, a in data["history"]], data.get("init"))
    print(json.dumps({"events": events, "problems": problems}, indent=1, default=str))
    return bool(problems)


# ======================================================================================
# main
# ======================================================================================

def main(tier=None, replay=None):
    ck = Check("C20", "model_checking", tier)
    rnd = random.Random(ck.seed)
    if replay:
        data = json.load(open(replay))["data"]
        if data["object"] == "make_key":
            bad = replay_make_key(data)
        elif str(data["object"]).startswith("point_"):
            import x02
            with x02.MemoDynsys(), x02.CacheRecorder() as rec:
                bad = x02.replay_one(x02.Fx(), rec, data)
        else:
            fx = Fx()
            with MemoDynsys(), CacheRecorder() as rec:
                bad = REPLAYERS[data["object"]](fx, rec, data)
        if bad:
            print(f"VIOLATION property=C20 replay={replay}")
            return 1
        return 0

    dictmode = part_make_key(ck)
    fx = Fx()
    with MemoDynsys(), CacheRecorder() as rec:
        flags = part_orbit(ck, fx, rec, dictmode, rnd)
        dbg("orbit done")
        dm = {"DictMode": flags["DictMode"]}
        wd = workdir("c20s")
        q = ck.quick
        part_small(ck, ManifoldWorld(fx, rec, wd), "MCManifoldObject.tla", f"ManifoldObject.asis.{ck.tier}.cfg",
                   "ManifoldObject.repaired.cfg", rnd, budget=250 if q else 4000, flags=dm, wd=wd,
                   probe=("MCManifoldProbe.tla", f"ManifoldProbe.asis.{ck.tier}.cfg"))
        dbg("manifold done")
        part_small(ck, SystemWorld(fx, rec, wd), "MCSystemObject.tla", f"SystemObject.asis.{ck.tier}.cfg",
                   "SystemObject.repaired.cfg", rnd, budget=400 if q else 2000, flags=dm, wd=wd,
                   probe=("MCSystemProbe.tla", f"SystemProbe.asis.{ck.tier}.cfg"))
        dbg("system done")
        cmw = CMWorld(fx, rec, wd)
        part_small(ck, cmw, "MCCMObject.tla", "CMObject.asis.cfg", "CMObject.repaired.cfg", rnd,
                   budget=300, flags=dm, wd=wd, keep=lambda h: all(s["op"] in CMWorld.CHEAP for s in h))
        # transition cover x read battery incl. save/load and to_synodic (normal forms of degree 2 and 3 are needed:
        # real histories share one libration point, see enable_heavy)
        cmw.enable_heavy()
        dbg("cm normal forms ready")
        cmw.name = "cm_probe"
        part_small(ck, cmw, "MCCMObject.tla", "CMObject.asis.cfg", "CMObject.repaired.cfg", rnd,
                   budget=0, flags=dm, wd=wd, keep=lambda h: False,
                   probe=("MCCMProbe.tla", f"CMProbe.asis.{ck.tier}.cfg"))
        dbg("cm probe done")
        if not q:
            cmw.name = "cm_hamiltonian"
            heavy_ops = CMWorld.CHEAP | {"Hamiltonian"}      # (save() evaluates cm.hamsys: it computes the normal form)
            part_small(ck, cmw, "MCCMObject.tla", "CMObject.asis.cfg", "CMObject.repaired.cfg", rnd,
                       budget=150, flags=dm, wd=wd,
                       keep=lambda h: all(s["op"] in heavy_ops for s in h) and any(s["op"] == "Hamiltonian" for s in h))
        dbg("cm done")

    ck.cov["rule"] = ("histories = one shortest history per distinct state of the TLC model of the working tree "
                      "(VIEW without the history variable; the state contains the last operation and its outcome) "
                      "plus -simulate walks of length 30 seeded by VERIF_SEED; every step of every history is "
                      "compared with a fresh twin; non-trivial = history of >= 3 operations; make_key: every "
                      "argument tuple of the TLC universe")
    ck.cov["exhaustive"] = True
    ck.assumptions += [
        "logical state of an orbit = (initial state, period, propagation settings its trajectory stands for, "
        "correction options in force), evolved by what each operation does to a freshly constructed object",
        "projection of a CorrectionResult = (x_corrected, half_period, converged); iteration counts are not compared",
        "while histories run, the CR3BP vector-field factories are memoised by (mu, name) so that un-pickled "
        "systems do not recompile their right-hand sides (pure functions of mu); service caches are untouched",
        "stamps are hashes of the exact bytes (no rounding): fresh twins were bit-reproducible in this process "
        "(re-checked on a sample at the end of every run)",
    ]
    # the libration point (one of the objects the statement names) with its full operation alphabet: PointObject.tla, worlds at
    # L1 (with the Hamiltonian layer), L3 (where the options are observable) and L4 (triangular service); see harness/x02.py
    import x02
    # quick tier: L3 and L4 (linear layer, options, persistence: seconds); the L1 world with the Hamiltonian layer (3 min) is thorough
    x02.run(ck, rnd, x02.Fx(), {"l3", "tri"} if ck.quick else {"point", "l3", "tri"})
    return ck.finish()


REPLAYERS = {"orbit": replay_orbit, "manifold": replay_small, "system": replay_small, "cm": replay_small,
             "cm_hamiltonian": replay_small, "cm_probe": replay_small}

if __name__ == "__main__":
    sys.exit(main())
