"""C10 -- backward propagation and time grids mean what they say.

Model: spec/algo/Propagate.tla (MCPropagate.tla instance): direction plumbing as data flow over a
discrete clock flow; requirement invariants separate from the algorithm transcription.
  1. TLC exhaustive: intended plumbing => every clause of C10, for every configuration
     (method x order x forward x system kind x flip x grid shape x entry point).  The same run
     emits every configuration with the predicted outcome.
  2. TLC on the as-found plumbing variants (one switch each) must violate exactly the clause the
     corresponding defect violates (the requirement invariants can see each defect).
  3. spec -> code: every configuration is run through the real _propagate_dynsys /
     System.propagate / Integrator.integrate on a rotation system, a polynomial harmonic
     Hamiltonian, the CR3BP and the variational system; recorders at the stage boundaries log the
     wrapper sign per component class, the grid handed to the integrator, what the integrator and
     the entry point returned -- projected to integers (clock position per sample, times in ticks).
  4. code -> spec: TLC validates the traces against PropagateTrace.tla; the Loose run evaluates the
     requirement clauses on each real outcome and prints the verdicts (decides violations), the
     Strict run says where a run leaves the algorithm transcription (diagnostic).
"""
from __future__ import annotations

import json
import os
import random
import subprocess
import sys
import time

import numpy as np

from common import SPEC, VERIF, WORK, Check, MachineryError, tlc, workdir

ALGO = SPEC / "algo" / "MCPropagate.tla"
TRACE = SPEC / "trace" / "PropagateTrace.tla"
CFG = SPEC / "cfg"

T_CR = 0.4            # time span of the CR3BP / variational runs
X0_CR = [0.8, 0.05, 0.1, 0.0, 0.2, 0.1]   # generic spatial state, no symmetry
FRAC_TOL = 0.2        # a state is "at clock position k" when within 0.2 tick of it (and near the unit circle)
R_TOL = 1e-2
CR_TOL = 1e-6         # a CR3BP state "is reference sample j" when within 1e-6 of it
OFFGRID = 9999        # time stamp that is not an integer number of ticks
CLASS_IDX = {"rot": ([0, 1], [2, 3]), "ham": ([0, 3], [1, 4]),
             "cr3bp": (list(range(6)), list(range(6))), "var": (list(range(36, 42)), list(range(36)))}


# --------------------------------------------------------------------------
# real systems
# --------------------------------------------------------------------------
def _rot4(t, y):
    return np.array([y[1], -y[0], y[3], -y[2]])


class Fixtures:
    def __init__(self):
        self._c = {}
        self.margin = {"frac": 0.0, "radius": 0.0, "cr_dist": 0.0, "first_sample": 0.0}

    def get(self, kind):
        if kind in self._c:
            return self._c[kind]
        if kind == "rot":
            from hiten.algorithms.dynamics.rhs import create_rhs_system
            s = create_rhs_system(_rot4, 4, "two rotations")
        elif kind == "ham":
            from numba.typed import List
            from hiten.algorithms.dynamics.hamiltonian import create_hamiltonian_system
            from hiten.algorithms.polynomial.base import (_create_encode_dict_from_clmo, _encode_multiindex,
                                                          _init_index_tables)
            psi, clmo = _init_index_tables(2)
            enc = _create_encode_dict_from_clmo(clmo)
            H = [np.zeros(psi[6, d], dtype=np.complex128) for d in range(3)]
            for v in (0, 3, 1, 4):          # H = (q1^2 + p1^2)/2 + (q2^2 + p2^2)/2
                k = np.zeros(6, dtype=np.int64)
                k[v] = 2
                H[2][_encode_multiindex(k, 2, enc)] = 0.5
            Hn = List()
            for a in H:
                Hn.append(a.copy())
            s = create_hamiltonian_system(Hn, 2, psi, clmo, enc, 3, "two harmonic oscillators")
        elif kind == "system":
            from hiten.system.base import System
            s = System.from_bodies("earth", "moon")
        elif kind == "cr3bp":
            s = self.get("system").dynsys
        elif kind == "var":
            s = self.get("system").var_dynsys
        else:
            raise KeyError(kind)
        self._c[kind] = s
        return s

    # ---- exact / reference flows
    def state_at(self, c, pos):
        th = pos * 2 * np.pi / c["M"]
        x, p = np.cos(th), -np.sin(th)
        if c["sys"] == "rot":
            return np.array([x, p, x, p])
        if c["sys"] == "ham":
            return np.array([x, x, 0.0, p, p, 0.0])
        x6 = self.cr_table(c["n"])[pos]
        if c["sys"] == "cr3bp":
            return x6.copy()
        y = np.zeros(42)
        y[:36] = np.eye(6).ravel()
        y[36:] = x6
        return y

    def cr_table(self, n):
        """Reference samples of the CR3BP flow through X0_CR at spacing T_CR/(n-1): index j >= 0 from a
        forward integration, j < 0 from the mirror image of a forward integration of the mirrored
        state (time-reversal symmetry (x,y,z,vx,vy,vz,t) -> (x,-y,z,-vx,vy,-vz,-t)); forward only."""
        key = ("crtab", n)
        if key in self._c:
            return self._c[key]
        from hiten.algorithms.integrators.rk import _DOP853
        f = self.get("cr3bp")
        R = np.array([1.0, -1.0, 1.0, -1.0, 1.0, -1.0])
        x0 = np.array(X0_CR)
        sym = np.abs(R * np.asarray(f.rhs(0.0, R * x0)) + np.asarray(f.rhs(0.0, x0))).max()
        if not sym < 1e-12:
            raise MachineryError(f"CR3BP field is not mirror-symmetric at the probe state ({sym}); reference unusable")
        g = np.linspace(0.0, T_CR, n)
        integ = _DOP853(rtol=1e-13, atol=1e-13)
        F = integ.integrate(f, x0, g).states
        G = integ.integrate(f, R * x0, g).states * R
        tab = {j: F[j] for j in range(n)}
        tab.update({-j: G[j] for j in range(1, n)})
        self._c[key] = tab
        return tab

    def tick_time(self, c):
        return 2 * np.pi / c["M"] if c["sys"] in ("rot", "ham") else T_CR / max(c["n"] - 1, 1)

    def positions(self, c, states):
        ia, ib = CLASS_IDX[c["sys"]]
        pa, pb = [], []
        for y in np.asarray(states, dtype=float):
            if c["sys"] in ("rot", "ham"):
                pa.append(self._clock(c, y[ia[0]], y[ia[1]]))
                pb.append(self._clock(c, y[ib[0]], y[ib[1]]))
            else:
                j = self._lookup(c, y[ia])
                pa.append(j)
                pb.append(j)
        return pa, pb

    def _clock(self, c, x, p):
        r = np.hypot(x, p)
        if not np.isfinite(r):
            return -1
        u = np.arctan2(-p, x) / (2 * np.pi / c["M"])
        k = int(np.rint(u))
        if abs(u - k) > FRAC_TOL or abs(r - 1.0) > R_TOL:
            return -1
        self.margin["frac"] = max(self.margin["frac"], abs(u - k))
        self.margin["radius"] = max(self.margin["radius"], abs(r - 1.0))
        return k % c["M"]

    def _lookup(self, c, x6):
        tab = self.cr_table(c["n"])
        if not np.all(np.isfinite(x6)):
            return -1
        j, d = min(((j, float(np.abs(x6 - v).max())) for j, v in tab.items()), key=lambda t: t[1])
        if d > CR_TOL:
            return -1
        self.margin["cr_dist"] = max(self.margin["cr_dist"], d)
        return j % c["M"]

    def ticks(self, c, times):
        tt = self.tick_time(c)
        out = []
        for t in np.asarray(times, dtype=float):
            u = t / tt
            k = np.rint(u)
            out.append(int(k) if np.isfinite(u) and abs(u - k) <= 1e-9 * max(1.0, abs(k)) else OFFGRID)
        return out

    def grid(self, c):
        n = c["n"]
        shape = {"asc": [i for i in range(n)], "desc": [-i for i in range(n)], "const": [0] * n,
                 "nonmono": [n - 3 if i == n - 1 else i for i in range(n)],
                 "ascnu": [(i * (i + 1)) // 2 for i in range(n)], "descnu": [-((i * (i + 1)) // 2) for i in range(n)]}[c["grid"]]
        return np.array(shape, dtype=float) * self.tick_time(c)

    def flip_indices(self, c):
        if c["flip"] == "none":
            return None
        dim = {"rot": 4, "ham": 6, "cr3bp": 6, "var": 42}[c["sys"]]
        if c["flip"] == "all":
            return list(range(dim))
        return {"rot": slice(0, 2), "ham": [0, 3], "var": slice(36, 42)}[c["sys"]]

    def measure_wrap(self, c, system_obj):
        """Sign the system handed to the integrator puts on the base field, per component class."""
        base = self.get(c["sys"])
        ia, ib = CLASS_IDX[c["sys"]]
        sf = int(getattr(system_obj, "_fwd", 1))
        src = "measured"
        try:
            rng = np.random.default_rng(5)
            yt = self.state_at(c, 0) + 0.01 * rng.standard_normal(base.dim)
            f0 = np.asarray(base.rhs(0.0, yt))
            f1 = np.asarray(system_obj.rhs(0.0, yt))

            def sg(idx):
                if np.allclose(f1[idx], f0[idx], rtol=1e-12, atol=0) and np.abs(f0[idx]).max() > 0:
                    return 1
                if np.allclose(f1[idx], -f0[idx], rtol=1e-12, atol=0):
                    return -1
                return 0
            wa, wb = sg(ia), sg(ib)
        except Exception:
            # field not evaluable (F4): fall back to the wrapper's own attributes
            src = "attributes"
            fl = getattr(system_obj, "_flip_idx", None)
            wa = sf
            if fl is None or sf == 1:
                wb = sf
            else:
                idx = set(range(base.dim)[fl]) if isinstance(fl, slice) else set(int(i) for i in fl)
                wa = -1 if set(ia) <= idx else 1
                wb = -1 if set(ib) <= idx else 1
        return {"e": "wrap", "wa": wa, "wb": wb, "sf": sf}, src


# --------------------------------------------------------------------------
# running one configuration through the real code
# --------------------------------------------------------------------------
class _RecIntegrator:
    def __init__(self, real, log):
        self._real, self._log = real, log

    def __getattr__(self, item):
        return getattr(self._real, item)

    def integrate(self, system, y0, t_vals, **kw):
        self._log.append(("call", system, np.array(t_vals, dtype=float), type(self._real).__name__))
        try:
            sol = self._real.integrate(system, y0, t_vals, **kw)
        except Exception as ex:  # noqa
            self._log.append(("iret_raised", ex))
            raise
        self._log.append(("iret", np.array(sol.times, dtype=float), np.array(sol.states, dtype=float)))
        return sol


def _make_integrator(c):
    from hiten.algorithms.integrators.rk import AdaptiveRK, FixedRK
    from hiten.algorithms.integrators.symplectic import _ExtendedSymplectic
    if c["method"] == "fixed":
        return FixedRK(order=c["order"])
    if c["method"] == "adaptive":
        return AdaptiveRK(order=c["order"], rtol=1e-12, atol=1e-12)
    return _ExtendedSymplectic(order=c["order"])


def _result(fx, c, times, states):
    pa, pb = fx.positions(c, states)
    return {"raised": False, "times": fx.ticks(c, times), "pa": pa, "pb": pb}


_RAISED = {"raised": True, "times": [], "pa": [], "pb": []}


def run_config(fx: Fixtures, c: dict, y0=None) -> dict:
    """Run configuration `c` through the real entry point.  Returns the trace record
    {cfg, ev, meta}; `meta` keeps floats (end state, exception names) and never goes to TLC."""
    import hiten.algorithms.dynamics.base as dbase
    import hiten.algorithms.integrators.rk as rk
    import hiten.algorithms.integrators.symplectic as sympl
    from pyfunc import patched

    log: list = []
    meta = {"exc": None, "wrap_src": None, "end_state": None, "integrator": None}
    if y0 is None:
        y0 = fx.state_at(c, c["start"])
    y0 = np.array(y0, dtype=float)
    grid = fx.grid(c)
    flip = fx.flip_indices(c)
    ev = []
    times = states = None

    if c["entry"] == "integrate":
        base = fx.get(c["sys"])
        system_obj = dbase._DirectedSystem(base, c["forward"], flip_indices=flip) if c["wrap"] == "dir" else base
        integ = _RecIntegrator(_make_integrator(c), log)
        try:
            sol = integ.integrate(system_obj, y0, grid)
            times, states = np.array(sol.times, dtype=float), np.array(sol.states, dtype=float)
        except Exception as ex:  # noqa
            meta["exc"] = f"{type(ex).__name__}: {str(ex)[:200]}"
        wrapped = [system_obj]
    else:
        real_dir = dbase._DirectedSystem
        wrapped = []

        class _RecDirected(real_dir):
            def __init__(self, *a, **k):
                super().__init__(*a, **k)
                wrapped.append(self)

        def rec(factory):
            return lambda *a, **k: _RecIntegrator(factory(*a, **k), log)

        tf = float(grid[-1])
        grid = np.linspace(0.0, tf, c["n"])          # what the entry point is documented to sample
        try:
            with patched(dbase, _DirectedSystem=_RecDirected), \
                    patched(rk, RungeKutta=rec(rk.RungeKutta), AdaptiveRK=rec(rk.AdaptiveRK)), \
                    patched(sympl, _ExtendedSymplectic=rec(sympl._ExtendedSymplectic)):
                if c["entry"] == "propagate":
                    sol = dbase._propagate_dynsys(fx.get(c["sys"]), y0, 0.0, tf, forward=c["forward"], steps=c["n"],
                                                  method=c["method"], order=c["order"], flip_indices=flip)
                else:
                    sol = fx.get("system").propagate(y0, tf=tf, steps=c["n"], method=c["method"],
                                                     order=c["order"], forward=c["forward"])
            times, states = np.array(sol.times, dtype=float), np.array(sol.states, dtype=float)
        except Exception as ex:  # noqa
            meta["exc"] = f"{type(ex).__name__}: {str(ex)[:200]}"

    if wrapped:
        w, meta["wrap_src"] = fx.measure_wrap(c, wrapped[0])
        ev.append(w)
    for item in log:
        if item[0] == "call":
            ev.append({"e": "call", "grid": fx.ticks(c, item[2])})
            meta["integrator"] = item[3]
        elif item[0] == "iret":
            ev.append(dict(e="iret", **_result(fx, c, item[1], item[2])))
        else:
            ev.append(dict(e="iret", **_RAISED))
    if times is not None:
        ev.append(dict(e="out", **_result(fx, c, times, states)))
        meta["end_state"] = [float(v) for v in states[-1]]
        meta["times_equal_request"] = bool(times.shape == grid.shape and (
            np.allclose(times, grid, rtol=1e-12, atol=0) or np.allclose(times, c["forward"] * grid, rtol=1e-12, atol=0)))
        d0 = float(np.abs(states[0] - y0).max())
        meta["first_sample_dist"] = d0
        fx.margin["first_sample"] = max(fx.margin["first_sample"], d0)
    else:
        ev.append(dict(e="out", **_RAISED))
    return {"cfg": c, "ev": ev, "meta": meta}


def twin_key(c):
    return json.dumps({k: c[k] for k in ("entry", "method", "order", "sys", "flip", "n", "M")}, sort_keys=True)


def run_group(configs: list) -> dict:
    """Run a list of configurations (forward ones first, so that backward round-trip runs start
    from the state the forward twin really ended in)."""
    fx = Fixtures()
    ends = {}
    out = []
    order = sorted(range(len(configs)), key=lambda i: (configs[i]["forward"] != 1 or configs[i]["grid"] != "asc", i))
    for i in order:
        c = configs[i]
        y0 = None
        if c["entry"] != "integrate" and c["forward"] == -1 and c["start"] == c["n"] - 1 and c["grid"] == "asc":
            y0 = ends.get(twin_key(c))
        t0 = time.time()
        tr = run_config(fx, c, y0)
        tr["meta"]["wall"] = round(time.time() - t0, 3)
        tr["meta"]["round_trip_from_twin"] = y0 is not None
        tr["idx"] = i
        if (c["entry"] != "integrate" and c["forward"] == 1 and c["grid"] == "asc" and c["start"] == 0
                and tr["meta"]["end_state"] is not None):
            ends[twin_key(c)] = tr["meta"]["end_state"]
        out.append(tr)
    out.sort(key=lambda t: t["idx"])
    return {"traces": out, "margin": fx.margin}


def _worker(inp, outp):
    from common import import_hiten
    import_hiten()
    import warnings
    warnings.filterwarnings("ignore")
    res = run_group(json.load(open(inp)))
    with open(outp, "w") as f:
        json.dump(res, f)
    import shutil
    os.chdir("/")
    shutil.rmtree(WORK, ignore_errors=True)      # the worker's own scratch directory (hiten logs)


def run_parallel(configs: list, timeout: int) -> dict:
    """One worker process per system kind (numba compiles one driver per vector field, so the
    groups share nothing); results are merged in configuration order."""
    wd = workdir("c10")
    groups = {}
    for i, c in enumerate(configs):
        g = c["sys"]
        groups.setdefault(g, []).append((i, c))
    procs = []
    for g, items in groups.items():
        inp, outp = wd / f"{g}.in.json", wd / f"{g}.out.json"
        inp.write_text(json.dumps([c for _, c in items]))
        p = subprocess.Popen([sys.executable, os.path.abspath(__file__), "--worker", str(inp), str(outp)],
                             stdout=subprocess.PIPE, stderr=subprocess.STDOUT, text=True, cwd=str(wd))
        procs.append((g, items, outp, p))
    traces = [None] * len(configs)
    margin = {}
    walls = {}
    t0 = time.time()
    for g, items, outp, p in procs:
        try:
            so, _ = p.communicate(timeout=max(30, timeout - (time.time() - t0)))
        except subprocess.TimeoutExpired:
            for _, _, _, q in procs:
                q.kill()
            raise MachineryError(f"C10 worker for group {g} timed out")
        if p.returncode != 0 or not outp.exists():
            raise MachineryError(f"C10 worker for group {g} failed rc={p.returncode}\n{so[-3000:]}")
        res = json.load(open(outp))
        for (i, _), tr in zip(items, res["traces"]):
            traces[i] = tr
        for k, v in res["margin"].items():
            margin[k] = max(margin.get(k, 0.0), v)
        walls[g] = round(time.time() - t0, 1)
    return {"traces": traces, "margin": margin, "walls": walls}


# --------------------------------------------------------------------------
# TLC trace validation and verdicts
# --------------------------------------------------------------------------
def tlc_traces(traces: list, cfgname: str, timeout=600):
    wd = workdir("c10t")
    tf = wd / "traces.json"
    tf.write_text(json.dumps([{"cfg": t["cfg"], "ev": t["ev"]} for t in traces]))
    r = tlc(TRACE, CFG / cfgname, workers=1, env={"TRACE_FILE": str(tf)}, timeout=timeout)
    if r.error or not r.finished or r.rc == 124 or r.invariant_violated:
        raise MachineryError(f"trace validation ({cfgname}) failed to run: {r.error or r.invariant_violated}\n{r.out[-3000:]}")
    import re
    m = re.search(r'<<\s*"REJECTED",\s*\{(.*?)\}\s*>>', r.out, re.S)
    if m is None:
        raise MachineryError("trace spec did not print a REJECTED line\n" + r.out[-3000:])
    rejected = {int(t) - 1: int(l) for t, l in re.findall(r"<<(\d+), (\d+)>>", m.group(1))}
    verdict = {}
    for p in r.printed():
        if isinstance(p, dict) and "tid" in p:
            verdict[int(p["tid"]) - 1] = sorted(p["failed"]) if p["failed"] else []
    return r, rejected, verdict


def site_of(tr):
    c = tr["cfg"]
    if c["entry"] == "propagate":
        return "_propagate_dynsys"
    if c["entry"] == "system":
        return "System.propagate"
    names = {("fixed", 4): "RK4", ("fixed", 6): "RK6", ("fixed", 8): "RK8", ("adaptive", 5): "RK45",
             ("adaptive", 8): "DOP853"}
    return names.get((c["method"], c["order"]), "Symplectic") + ".integrate"


def classify(tr, failed):
    """Structural key <call site>|<failing-input class> for a real run that violates C10."""
    c = tr["cfg"]
    out = tr["ev"][-1]
    exc = tr["meta"].get("exc") or ""
    desc = None
    if ("WellFormedRequestServed" in failed and c["sys"] == "ham" and c["method"] != "symplectic"
            and ("Numba" in exc or "Typing" in exc or "nopython" in exc)):
        site = "_propagate_dynsys" if c["entry"] == "propagate" else "Integrator.integrate"
        return (f"{site}|hamiltonian-system-rhs-not-evaluable",
                "a polynomial Hamiltonian system cannot be propagated with a fixed/adaptive scheme through a "
                "_DirectedSystem: its rhs cannot be compiled")
    if (not out["raised"] and c["method"] == "adaptive" and c["grid"] == "desc"
            and "DescendingGridCorrectOrRejected" in failed and all(p == c["start"] for p in out["pa"])):
        name = "DOP853" if c["order"] == 8 else "RK45"
        return (f"{name}.integrate|descending-grid-returns-initial-state",
                f"{name} given a strictly decreasing grid returns the initial state at every sample, no error")
    if (not out["raised"] and c["method"] == "symplectic" and c["forward"] == -1 and c["entry"] != "integrate"
            and "TimesSigned" in failed and all(t >= 0 for t in out["times"])
            and out["pa"] == [(c["start"] - i) % c["M"] for i in range(c["n"])]):
        return (f"{site_of(tr)}|symplectic-backward-times-positive",
                "symplectic backward propagation returns the backward states with positive, increasing time stamps")
    if (not out["raised"] and c["method"] == "symplectic" and c["grid"] == "const" and c["entry"] == "integrate"
            and out["pa"][1:] == [-1] * (c["n"] - 1)):
        return ("Symplectic.integrate|constant-grid-returns-nan",
                "symplectic integrator given a zero-span grid (accepted by validate_inputs) returns NaN states")
    cl = failed[0]
    return (f"{site_of(tr)}|{cl}:{c['method']}{c['order']}-{c['sys']}-{c['grid']}-"
            f"{'backward' if c['forward'] < 0 else 'forward'}-flip-{c['flip']}-{c['wrap']}",
            f"clause(s) {failed} of C10 violated")


EXPECT_ASFOUND = {"F2": "DescendingGridCorrectOrRejected", "F3": "TimesSigned", "F4": "WellFormedRequestServed",
                  "NaN": "DescendingGridCorrectOrRejected"}


def main(tier=None, replay=None):
    if replay:
        replay = os.path.abspath(replay)          # Check() moves the process to its scratch directory
    ck = Check("C10", "model_checking", tier)
    rnd = random.Random(ck.seed)
    import warnings
    warnings.filterwarnings("ignore")

    if replay:
        data = json.load(open(replay))["data"]
        c = data["cfg"]
        fx = Fixtures()
        y0 = None
        if data.get("round_trip_from_twin"):
            twin = dict(c, forward=1, start=0)
            y0 = run_config(fx, twin)["meta"]["end_state"]
        tr = run_config(fx, c, y0)
        _, rej, verdict = tlc_traces([tr], "PropagateTrace.Loose.cfg")
        failed = verdict.get(0, ["(no verdict)"])
        print(json.dumps({"cfg": c, "events": tr["ev"], "exception": tr["meta"]["exc"], "failed_clauses": failed}, indent=1))
        if failed:
            print(f"VIOLATION property=C10 replay={replay}")
            return 1
        return 0

    # 1. model: intended plumbing => requirement; emits the configurations
    r = tlc(ALGO, CFG / f"Propagate.{ck.tier}.cfg", timeout=600, workers=4)
    ck.model("Propagate." + ck.tier, r)
    recs = r.printed()
    seen, configs, predicted = set(), [], []
    for p in recs:
        k = json.dumps(p["cfg"], sort_keys=True)
        if k not in seen:
            seen.add(k)
            configs.append(p["cfg"])
            predicted.append(p["out"])
    order = sorted(range(len(configs)), key=lambda i: json.dumps(configs[i], sort_keys=True))   # TLC's worker
    configs, predicted = [configs[i] for i in order], [predicted[i] for i in order]            # order is not stable
    if len(configs) < 50:
        raise MachineryError(f"model emitted only {len(configs)} configurations")
    ck.part("configurations", emitted=len(configs))

    # 3. start the real runs (worker processes) and meanwhile do step 2
    budget = 150 if ck.quick else 1000
    t_run = time.time()
    import threading
    box = {}

    def _bg():
        try:
            box["res"] = run_parallel(configs, budget)
        except BaseException as ex:  # noqa
            box["err"] = ex
    th = threading.Thread(target=_bg)
    th.start()

    # 2. as-found plumbing variants: each must break exactly its clause
    for v, inv in EXPECT_ASFOUND.items():
        rv = tlc(ALGO, CFG / f"Propagate.asfound{v}.cfg", timeout=300, workers=2)
        ck.model("Propagate.asfound" + v, rv, expect_ok=False)
        if rv.invariant_violated != inv:
            th.join()
            raise MachineryError(f"as-found variant {v}: expected TLC to report {inv}, got {rv.invariant_violated}")
        ck.part("Propagate.asfound" + v, violated=inv)

    th.join()
    if "err" in box:
        raise box["err"] if isinstance(box["err"], MachineryError) else MachineryError(repr(box["err"]))
    res = box["res"]
    traces = res["traces"]
    ck.part("real_runs", runs=len(traces), wall_s=round(time.time() - t_run, 1), **{f"wall_{k}": v for k, v in res["walls"].items()})
    m = res["margin"]
    ck.part("margins", clock_frac_max=m.get("frac", 0.0), clock_frac_tol=FRAC_TOL, radius_err_max=m.get("radius", 0.0),
            radius_tol=R_TOL, cr3bp_dist_max=m.get("cr_dist", 0.0), cr3bp_tol=CR_TOL,
            first_sample_dist_max=m.get("first_sample", 0.0),
            margin_low_clock=(FRAC_TOL / m["frac"]) if m.get("frac") else None, margin_high_clock=1.0 / FRAC_TOL,
            margin_low_cr3bp=(CR_TOL / m["cr_dist"]) if m.get("cr_dist") else None)

    # 4. code -> spec
    _, strict_rej, _ = tlc_traces(traces, "PropagateTrace.Strict.cfg")
    rl, loose_rej, verdict = tlc_traces(traces, "PropagateTrace.Loose.cfg")
    ck.cov["states"] += rl.distinct
    ck.cov["traces_validated_against_impl"] += len(traces)
    if loose_rej or len(verdict) != len(traces):
        raise MachineryError(f"malformed traces: {len(loose_rej)} not loadable, {len(verdict)}/{len(traces)} verdicts")

    n_bad = 0
    for i, tr in enumerate(traces):
        c = tr["cfg"]
        nontrivial = c["forward"] == -1 or c["grid"] != "asc" or c["flip"] != "none"
        ck.count(json.dumps(c, sort_keys=True), nontrivial)
        failed = verdict[i]
        out = tr["ev"][-1]
        # "the first sample is the initial state", "samples exactly at the requested times": the float-level
        # companions of the integer projection (exact comparisons: copies of the inputs)
        extra = []
        if not out["raised"]:
            if tr["meta"].get("first_sample_dist", 0.0) > 1e-12:
                extra.append("FirstSampleInitial")
            if c["grid"] == "asc" and not tr["meta"].get("times_equal_request", True) and "SamplesAtRequestedTimes" not in failed \
                    and "TimesSigned" not in failed:
                extra.append("SamplesAtRequestedTimes")
        failed = sorted(set(failed) | set(extra))
        if failed:
            n_bad += 1
            key, desc = classify(tr, failed)
            ck.violation(key, f"{desc}; cfg={c}; returned={out if not out['raised'] else tr['meta']['exc']}; "
                              f"failed clauses {failed}; first departure from the algorithm transcription at event "
                              f"{strict_rej.get(i, '-')}",
                         {"cfg": c, "round_trip_from_twin": tr["meta"]["round_trip_from_twin"], "failed": failed,
                          "events": tr["ev"], "exception": tr["meta"]["exc"]})
        elif i in strict_rej:
            ck.notes.append(f"run leaves the algorithm transcription at event {strict_rej[i]} without violating a "
                            f"clause of C10: cfg={c} events={tr['ev']} predicted={predicted[i]}")
        if len(ck.cov["samples"]) < 6 and c["forward"] == -1 and not out["raised"] and not failed and c["start"] > 0:
            ck.sample({"cfg": c, "events": tr["ev"]})
    ck.part("trace_validation", traces=len(traces), strict_rejected=len(strict_rej), runs_violating=n_bad,
            raised=sum(1 for t in traces if t["ev"][-1]["raised"]))

    # 5. binding self-test: corrupted traces must be caught by TLC
    good = [t for i, t in enumerate(traces) if not verdict[i] and i not in strict_rej and not t["ev"][-1]["raised"]
            and t["cfg"]["forward"] == -1 and t["cfg"]["entry"] == "propagate" and t["cfg"]["grid"] == "asc"]
    if good:
        a = json.loads(json.dumps(rnd.choice(good)))
        a["ev"][-1]["pa"][-1] = (a["ev"][-1]["pa"][-1] + 2) % a["cfg"]["M"]          # last sample off the flow
        b = json.loads(json.dumps(rnd.choice(good)))
        b["ev"][-1]["times"] = [-t for t in b["ev"][-1]["times"]]                      # positive times
        c2 = json.loads(json.dumps(rnd.choice(good)))
        c2["ev"][0]["wa"] = -c2["ev"][0]["wa"]                                         # wrapper sign lies
        _, srej, _ = tlc_traces([a, b, c2], "PropagateTrace.Strict.cfg")
        _, _, ver = tlc_traces([a, b, c2], "PropagateTrace.Loose.cfg")
        if len(srej) != 3 or not ver.get(0) or "TimesSigned" not in (ver.get(1) or []):
            raise MachineryError(f"binding self-test: corrupted traces not caught (strict {srej}, loose {ver})")
        ck.part("selftest", corrupted_traces_rejected=3)
    else:
        ck.notes.append("binding self-test skipped: no clean backward trace available")

    ck.cov["rule"] = ("cases = configurations emitted by the TLC model (entry x method x order x system kind x wrap/forward x "
                      "flip x grid shape x start), each run once through the real entry point; non-trivial = backward, "
                      "flipped or non-ascending grid")
    ck.cov["exhaustive"] = True
    ck.assumptions += [
        "flows are projected to clock positions: exact rotation for the user-rhs and polynomial-Hamiltonian systems; for the "
        "CR3BP/variational system the reference samples come from forward-only DOP853 runs (rtol 1e-13) plus the mirror "
        "symmetry of the CR3BP",
        "round trip is decided at the resolution of the clock (0.2 tick) resp. 1e-6 (CR3BP), i.e. far above integration error",
        "selective flipping with the symplectic scheme (which never evaluates the wrapped field) is not part of the family",
        "the STM block of the variational system under selective flipping is not observed here (C03/C12)",
    ]
    import c10ev
    c10ev.run(ck)        # _propagate_dynsys with a terminal event: stamps, direction, state (Contracts.tla)
    return ck.finish()


if __name__ == "__main__":
    if len(sys.argv) == 4 and sys.argv[1] == "--worker":
        _worker(sys.argv[2], sys.argv[3])
        sys.exit(0)
    sys.exit(main())
