"""C02 add-on: the adaptive step loop RETURNS (spec/algo/StepStall.tla).

"An adaptive integrator returns, at every requested output time, a state whose error ... is bounded by a modest multiple of
the requested tolerances": when the tolerance cannot be met with the smallest admissible step the only outcome compatible
with that sentence is an exception; spinning for ever (or handing back a state that failed the error test) is not.

TLC (MCStepStall): variant RaiseOnUnderflow=TRUE satisfies  Terminates, FailsOnlyIfUnreachable, ReachableImpliesDone  on
every configuration and emits the set of admissible (class, terminal state) pairs; variant FALSE (a step rejected at
min_step is clamped back to min_step and retried) violates Terminates with a stuttering lasso.  What the working tree does
is OBSERVED on the compiled public integrators, one sub-process per driver (a numba loop cannot be interrupted from
Python), and every observed (class, outcome) must be in the set TLC emitted:

   reachable    (error test passes at min_step: hok >= hmin)   -> returns (pc = "done"), samples accurate
   truncated    (last step cut below min_step by the end time)  -> returns
   unreachable  (error test fails at min_step: hok < hmin)      -> raises  (pc = "failed"); a hang is the violation
"""
from __future__ import annotations

import json
import os
import subprocess
import sys
import time

from common import SPEC, VERIF, Check, MachineryError, tlc

DRIVERS = [(o, ham, ev) for o in (5, 8) for ham in (False, True) for ev in (False, True)]
CHILD_BUDGET_S = 420.0          # a child needs ~15-40 s (import + JIT); a spinning driver never comes back


def dname(o, ham, ev):
    return f"{'rk45' if o == 5 else 'dop853'}{'_ham' if ham else ''}{'_until_event' if ev else ''}"


# --------------------------------------------------------------------------------------
# child: runs the cases of ONE driver, one JSON line per phase
# --------------------------------------------------------------------------------------
def child(order: int, ham: bool, ev: bool):
    import math
    import common
    common.import_hiten()
    import numba
    import numpy as np
    from numba import types
    from numba.typed import List
    from hiten.algorithms.dynamics.hamiltonian import create_hamiltonian_system
    from hiten.algorithms.dynamics.rhs import create_rhs_system
    from hiten.algorithms.integrators.rk import AdaptiveRK
    from hiten.algorithms.polynomial.base import _create_encode_dict_from_clmo, _init_index_tables
    from hiten.algorithms.types.configs import EventConfig
    from hiten.algorithms.types.options import EventOptions
    import polyutil as pu

    def say(**kw):
        print(json.dumps(kw), flush=True)

    if ham:
        psi, clmo = _init_index_tables(2)
        enc = _create_encode_dict_from_clmo(clmo)
        ks = pu.enum(2)
        blk = np.zeros(len(ks), dtype=np.complex128)
        for i, k in enumerate(ks):
            if tuple(k) in ((2, 0, 0, 0, 0, 0), (0, 0, 0, 2, 0, 0)):
                blk[i] = 0.5
        H = List()
        H.append(np.zeros(1, dtype=np.complex128))
        H.append(np.zeros(6, dtype=np.complex128))
        H.append(blk)
        system = create_hamiltonian_system(H, 2, psi, clmo, enc, n_dof=3)      # q1' = p1, p1' = -q1
        y0, ip = np.array([1.0, 0, 0, 0, 0, 0]), 3
    else:
        system = create_rhs_system(numba.njit(cache=False)(lambda t, y: np.array([y[1], -y[0]])), 2, "rotation")
        y0, ip = np.array([1.0, 0.0]), 1
    g = numba.njit(types.float64(types.float64, types.float64[:]), cache=False)(lambda t, y: y[0] - 0.3)
    hmin = 0.05 if order == 5 else 0.5
    cases = [("reachable", dict(rtol=1e-3, atol=1e-3, min_step=hmin, max_step=2 * hmin), 3.03),
             ("truncated", dict(rtol=1e-3, atol=1e-3, min_step=hmin, max_step=hmin), 10.3 * hmin),
             ("unreachable", dict(rtol=1e-14, atol=1e-14, min_step=hmin, max_step=2 * hmin), 3.03)]
    for cls, opts, T in cases:
        say(case=cls, phase="start", opts=opts, T=T)
        t0 = time.time()
        t = np.linspace(0.0, T, 11)
        kw = {}
        if ev:
            kw = dict(event_fn=g, event_cfg=EventConfig(direction=0, terminal=True), event_options=EventOptions(xtol=1e-10, gtol=1e-12))
        try:
            sol = AdaptiveRK(order=order, **opts).integrate(system, y0.copy(), t if not ev else np.array([0.0, T]), **kw)
            ts, ys = np.asarray(sol.times, dtype=float), np.asarray(sol.states, dtype=float)
            err = float(np.max(np.abs(np.column_stack([ys[:, 0] - np.cos(ts), ys[:, ip] + np.sin(ts)]))))
            say(case=cls, phase="end", outcome="returns", max_error=err, t_last=float(ts[-1]), wall=round(time.time() - t0, 2),
                finite=bool(np.all(np.isfinite(ys))))
        except Exception as ex:  # noqa
            say(case=cls, phase="end", outcome="raises", exc=type(ex).__name__, msg=str(ex)[:160], wall=round(time.time() - t0, 2))
    say(case="-", phase="finished")
    import shutil
    shutil.rmtree(common.WORK, ignore_errors=True)


# --------------------------------------------------------------------------------------
# parent
# --------------------------------------------------------------------------------------
def run(ck: Check):
    algo, cfgd = SPEC / "algo" / "MCStepStall.tla", SPEC / "cfg"
    # 1. the repaired design terminates on every configuration; its terminal states per class are the oracle
    r = tlc(algo, cfgd / f"StepStall.repaired.{ck.tier}.cfg", workers=4, timeout=900)
    ck.model(f"StepStall.repaired.{ck.tier}", r)
    allowed = set()
    for rec in r.printed():
        if isinstance(rec, list) and len(rec) == 3 and rec[0] == "terminal":
            allowed.add((bool(rec[1]), rec[2]))
    if allowed != {(True, "failed"), (False, "done")}:
        raise MachineryError(f"StepStall: unexpected terminal classes {sorted(allowed)}")
    # 2. the loop as written before the repair is refuted by TLC (the liveness property is not vacuous)
    ra = tlc(algo, cfgd / f"StepStall.asis.{ck.tier}.cfg", workers=4, timeout=900)
    if "Temporal property Terminates was violated" not in ra.out or "Stuttering" not in ra.out:
        raise MachineryError("StepStall: TLC does not refute Terminates for the retry-for-ever variant\n" + ra.out[-1500:])
    ck.cov["states"] += ra.distinct
    ck.cov["transitions"] += ra.generated
    ck.part(f"StepStall.asis.{ck.tier}", distinct_states=ra.distinct, verdict="Terminates violated (stuttering lasso at h = hmin, hok < hmin)")

    # 3. the compiled drivers, one sub-process each, all started together
    env = dict(os.environ)
    procs = {}
    t0 = time.time()
    for d in DRIVERS:
        procs[d] = subprocess.Popen([sys.executable, os.path.abspath(__file__), "--child", str(d[0]), str(int(d[1])), str(int(d[2]))],
                                    stdout=subprocess.PIPE, stderr=subprocess.PIPE, text=True, env=env, cwd=str(VERIF / "harness"))
    results = {}
    for d, p in procs.items():
        left = max(5.0, CHILD_BUDGET_S - (time.time() - t0))
        try:
            out, errtxt = p.communicate(timeout=left)
            hung = False
        except subprocess.TimeoutExpired:
            p.kill()
            out, errtxt = p.communicate()
            hung = True
        lines = []
        for l in out.splitlines():
            try:
                lines.append(json.loads(l))
            except Exception:  # noqa
                pass
        results[d] = (hung, lines, errtxt, p.returncode)
    ck.part("stall_observation", drivers=len(DRIVERS), wall_s=round(time.time() - t0, 1), budget_s=CHILD_BUDGET_S)

    variant = set()
    for d, (hung, lines, errtxt, rc) in results.items():
        name = dname(*d)
        ends = {l["case"]: l for l in lines if l.get("phase") == "end"}
        starts = [l["case"] for l in lines if l.get("phase") == "start"]
        if not starts and not hung:
            raise MachineryError(f"stall child {name} produced nothing (rc={rc}):\n{errtxt[-1500:]}")
        if not hung and not any(l.get("phase") == "finished" for l in lines):
            raise MachineryError(f"stall child {name} died (rc={rc}):\n{errtxt[-1500:]}")
        for cls in ("reachable", "truncated", "unreachable"):
            ck.count(("stall", name, cls), True)
            unreachable = cls == "unreachable"
            if cls in ends:
                e = ends[cls]
                pc = "done" if e["outcome"] == "returns" else "failed"
            elif hung and starts and starts[-1] == cls:
                e, pc = {"outcome": "does not return", "wall": CHILD_BUDGET_S}, "spinning"
            elif hung:
                continue                      # not reached because an earlier case never returned (already reported)
            else:
                raise MachineryError(f"stall child {name}: case {cls} missing")
            if len(ck.cov["samples"]) < 12:
                ck.sample({"stall_case": f"{name}|{cls}", "observed": e})
            if (unreachable, pc) in allowed:
                if pc == "done" and (not e.get("finite") or e.get("max_error", 1.0) > 1e-1):
                    ck.violation(f"AdaptiveRK|{name}|{cls}|returned-state-inaccurate",
                                 f"{name}, {cls} configuration: returned with max error {e.get('max_error')}",
                                 {"driver": list(d), "case": cls})
                variant.add("raises" if unreachable else "returns")
                continue
            if pc == "spinning":
                variant.add("spins")
                ck.violation(f"AdaptiveRK|{name}|rejected-at-min-step-retried-forever",
                             f"{name}: rtol=atol=1e-14 with min_step={0.05 if d[0] == 5 else 0.5} on the harmonic rotation: the error "
                             f"test fails at min_step, the step is clamped back to min_step and retried; the call had not returned "
                             f"after {CHILD_BUDGET_S:.0f} s (the reachable cases of the same process took < 1 s).  StepStall.tla: "
                             f"Terminates violated for RaiseOnUnderflow = FALSE", {"driver": list(d), "case": cls})
            elif unreachable and pc == "done":
                ck.violation(f"AdaptiveRK|{name}|returns-a-state-that-failed-the-error-test",
                             f"{name}: tolerance unreachable at min_step, yet the call returned (max error {e.get('max_error')})",
                             {"driver": list(d), "case": cls})
            else:
                ck.violation(f"AdaptiveRK|{name}|raises-although-tolerance-reachable",
                             f"{name}, {cls} configuration: {e.get('exc')}: {e.get('msg')}", {"driver": list(d), "case": cls})
    ck.part("stall_observation", observed=sorted(variant),
            matches_variant="RaiseOnUnderflow=TRUE" if "spins" not in variant else "RaiseOnUnderflow=FALSE (as written before the repair)")


def replay(data) -> bool:
    d = tuple(data["driver"])
    p = subprocess.Popen([sys.executable, os.path.abspath(__file__), "--child", str(d[0]), str(int(d[1])), str(int(d[2]))],
                         stdout=subprocess.PIPE, stderr=subprocess.PIPE, text=True, cwd=str(VERIF / "harness"))
    try:
        out, _ = p.communicate(timeout=CHILD_BUDGET_S)
        print(out)
        ends = {}
        for l in out.splitlines():
            try:
                j = json.loads(l)
                if j.get("phase") == "end":
                    ends[j["case"]] = j
            except Exception:  # noqa
                pass
        e = ends.get(data["case"], {})
        want = "raises" if data["case"] == "unreachable" else "returns"
        return e.get("outcome") != want
    except subprocess.TimeoutExpired:
        p.kill()
        print(f"{dname(*d)}: no answer after {CHILD_BUDGET_S:.0f} s")
        return True


if __name__ == "__main__":
    if len(sys.argv) >= 5 and sys.argv[1] == "--child":
        child(int(sys.argv[2]), bool(int(sys.argv[3])), bool(int(sys.argv[4])))
